#!/venv/bin/python
"""Regenerate MANIFEST.json from the table below (a property is claimed iff its check module exists)."""
import json
import os

HERE = os.path.dirname(os.path.abspath(__file__))

# id -> (technique, level text, level note, DESIGN section)
T = {
    "C01": ("explicit-state exploration of conversion chains (depth<=3) from every tz transition + breadth-first search over mixed operation sequences (conversions, elapsed and calendar arithmetic) with de-duplicated implementation states, vs TZif reference model; native datetimes on skipped / repeated wall times (both folds) and pendulum values carrying a foreign tzinfo through instance(); targets given as a number of hours (int, float, int subclass, IntEnum); TZ-environment spellings in fresh interpreters",
            "Every zone's every offset transition is probed at -1us/0/+1us/+-1s/+-gap; conversion operations (in_timezone, in_tz, astimezone, from_timestamp, fromtimestamp, instance of 5 tzinfo kinds, and receivers that carry a foreign tzinfo) are applied as sequences up to depth 3 and every reached state is compared with an independent TZif/POSIX-footer reference; states reached by different routes for one (instant, zone) must be observationally equal.",
            "Trusts: reference TZif reader (validated against stdlib zoneinfo on every run), the two tz databases on this image. Bound: neighbourhoods of transitions + 37-year grid, witness target zones in quick, all ordered pairs in thorough."),
    "C02": ("exhaustive enumeration of skipped/repeated/ordinary wall times of every zone x fold x raise flag x entry point, vs solve() reference; truthy non-bool flags; raw-constructed receivers handed the values they already show",
            "All gaps and overlaps of all zones are enumerated from the tz data; each wall time is built through every wall-clock entry point with both folds and both raise flags and compared with a reference that enumerates the UTC instants rendering to that wall time.",
            "Trusts the TZif reference reader. Bound: 5 wall times per transition (edges, middle) + ordinary walls."),
    "C03": ("exhaustive enumeration: transition-neighbourhood states x carry-critical amount alphabet x {add, subtract, +td, -td, td+dt, Duration+dt} and inverse (depth 2); calendar-edge receivers (29 February of every kind of year) under both helper back ends + breadth-first search over depth-3 operation sequences (receivers produced by earlier conversions/arithmetic); dyadic float / bool amounts, timedelta subclasses, century-long timedeltas, receivers used by other operations before",
            "From every probe state around every transition of every zone, fixed-length amounts from a carry-critical alphabet are added and then subtracted; instants are compared as integer microseconds with the reference rendering.",
            "Trusts the TZif reference reader. Bound: amount alphabet (|total| <= 1e9 s), neighbourhood probes."),
    "C04": ("exhaustive enumeration: calendar-edge dates x (years, months, weeks, days, time) alphabet x {add, subtract, +Duration, -Duration, +(-d), Duration+dt, Durations derived by arithmetic} vs integer reference with clamp + C02 normalisation; DST-target starts with both raw fold flags; breadth-first search over depth-3 operation sequences; fractional days on elapsed-clock receivers; receivers and Interval operands used by other operations before (reference from a fresh twin)",
            "Month-end/leap/year-boundary starts x signed amount alphabet; results compared with an integer calendar model; the three spellings of subtraction must agree.",
            "Bound: amount alphabet and start-date set listed in the evidence; zones = witness set."),
    "C05": ("exhaustive enumeration of ordered endpoint pairs (all zones' transition neighbourhoods, both folds, tz-identity variants) vs integer instant difference; subclass and sibling-subclass operands, native naive operands, abs()-then-negate sequences on one Interval object",
            "All ordered pairs among probe states around transitions (same tzinfo object / equal name / different zones), through -, diff, interval, abs, absolute=True, in_*; compared with the integer microsecond difference of the instants.",
            "Bound: pairs within a zone's transition probes + cross-zone witness pairs + far-apart straddlers."),
    "C06": ("exhaustive enumeration of (start,end) date pairs over leap-cycle windows x time-of-day borrow patterns (incl. differently named zones sharing an offset, native operands); decomposition checker + Rust/Python differential; reflected addition and helper / class / diff / operator routes of one pair; negation, equality and hash after abs()",
            "Every date pair in the windows (span <= 800 days) x borrow pattern is decomposed by both precise_diff back ends and by Interval; ranges, rebuild, negation, in_months and back-end agreement are checked.",
            "Bound: year windows listed in the evidence; zones: UTC, fixed, naive, Date, witness zones without net offset change."),
    "C07": ("exhaustive enumeration: every date of the year set rendered in 6 ISO forms x time/fraction/offset products, parsed by both back ends (constructive oracle)",
            "Strings are rendered from values by an independent renderer; parse() under both back ends must return the value rendered; impossible dates must raise ValueError; isoformat/str/to_*_string round trips.",
            "Bound: quick = 30 full years, thorough = every date 1583..9999; all 2879 minute offsets."),
    "C08": ("exhaustive enumeration: DateTime grid x every token / token pair / format grammar x 27 locales; from_format inversion (depth 2) incl. every hour of the day and the X/x/YY/E/d/DDDD/Q tokens; named helpers under other default locales; non-matching strings (meridiem hour, trailing newline, impossible day-of-year, dotted names altered); names written last / against their neighbours in every locale; now-in-the-requested-zone; rejected set_locale()",
            "Each documented token is rendered for every grid value and compared with an integer/strftime/locale-data renderer; formats generated by a small grammar are inverted with from_format.",
            "Bound: value grid and grammar listed in the evidence; whole-minute offsets."),
    "C09": ("exhaustive enumeration of constructor argument tuples from a boundary alphabet (<=4/5 non-zero of 9 components) vs integer model; integer clauses on lengths up to timedelta.max; AbsoluteDurations of a day and more and their copies; rebuilds after the value was worded",
            "Every tuple of the alphabet is normalised by Duration and by an integer reference; native slots, component ranges/signs, rebuild and total_*/in_* consistency are compared.",
            "Bound: alphabet per component, |total| < 2^53 us."),
    "C10": ("exhaustive enumeration: operand pairs (40 values x Duration|timedelta) x all operators x numbers, vs native timedelta; Interval and AbsoluteDuration as left operands and divisors, hash of Intervals, one operand object reused across the additive and the scaling operator families",
            "Every operator on every operand pair is executed on Durations and on native timedeltas; value and result type are compared.",
            "Bound: operand alphabet listed in the evidence."),
    "C11": ("exhaustive enumeration: states x accessors, alternative constructors, replace() argument forms, formatting mixin and all ordered pairs x comparison/hash/subtraction vs native twins; instance(tz=None), fromtimestamp carries, combine(..., None), Duration operands shared by all states, operands that look like timedeltas but implement the reflected operators themselves",
            "Each pendulum value and its native twin answer every stdlib accessor; all ordered pairs go through the six comparisons, hash and subtraction.",
            "Bound: state set from transition neighbourhoods of witness zones, calendar samples for Date, grid for Time."),
    "C12": ("explicit-state exploration: every (instant, zone) state reached by 3 routes x 9 units x start_of/end_of applied twice, 7 week configurations; parsed routes (incl. text with its own offset under a tz option); the first route's receiver asked again from the largest unit down; rejected week setters in every configuration",
            "For each model state several implementation states (constructed with fold 0/1, converted, parsed) are explored; the stated clauses (same unit, s<=x<=e, neighbours outside, tz kept, idempotent, route independence, termination) are checked against calref/tzref.",
            "Bound: transition neighbourhoods of every zone +-5h/7h and a 37-year grid."),
    "C13": ("exhaustive enumeration of ISO duration strings (designator subsets x value alphabet x fraction strings of length<=3 + long ones) in both back ends vs Fraction model; doubled designators; every quarter-hour explicit offset in ascending / descending / ascending order within one process; reported components vs value",
            "Strings are generated from a grammar; parse results from both back ends are compared with exact rational arithmetic rounded half-even; malformed orders must raise ValueError; interval forms compared with arithref.",
            "Bound: value alphabet, fraction lengths listed in the evidence."),
    "C14": ("exhaustive enumeration: value seeds (every overlap of every zone, component subsets, all zones/offsets) x pickle protocols 0..5 x copy x deepcopy, depth 2; every value copied again after a type-specific battery of read-only uses; lengths up to timedelta.max",
            "Each seed is serialised/copied by every route (and a copy of a copy); type, accessor tuple, instant and == are compared with the original.",
            "Bound: seed sets listed in the evidence."),
    "C15": ("exhaustive enumeration of all years 1..9999 and all 3,652,059 dates in both back ends vs stdlib; the public helpers.local_time wrapper; enumeration and oracles independent of the stdlib calendar module's mutable state",
            "All years and all dates are enumerated completely for the calendar primitives in both back ends; local_time at every (quick: every 5th) day boundary +-1 s x offsets and whole-day sweeps; getters on all (quick: a stated sub-lattice of) dates.",
            "Trusts stdlib datetime/calendar (named by the property) and the closed-form calref, cross-checked against each other at run time."),
    "C16": ("exhaustive enumeration: every date of a 28-year cycle x 7 weekdays x n ranges x units; anomalous-midnight zones; vs calref date arithmetic; pendulum fixed-offset receivers; truthy non-bool keep_time",
            "Every month/quarter/year shape x weekday x n is navigated on Date and DateTime and compared with integer date arithmetic; termination enforced by a horizon.",
            "Bound: 28-year cycle + century years; zones = witness set + all skipped/repeated midnights."),
    "C17": ("exhaustive enumeration of all strings of length <=4 (thorough <=6) over a 26-symbol alphabet + all single (thorough: double) edits of valid templates x options, both back ends; range-boundary date strings of every year type with the calendar as oracle; numeric tz= for every whole-minute offset; 24:00 notation on impossible dates; characters that are not fraction / date-time separators",
            "Every string of the bounded language is parsed under both back ends; the outcome must be a supported type or ValueError, accepted values must agree across back ends and not stem from wrapped numbers.",
            "Bound: string length / edit distance / template set listed in the evidence."),
    "C18": ("exhaustive enumeration: 27 locales x units x counts 0..1000 x {now,other} x {past,future} x absolute; locale tokens; call-order histories (depth<=3) on a cold locale cache; per-locale direction-marker consistency; Interval.in_words over all instant pairs; format_diff of every spelling of one Interval; float-built durations; locale tables compared with each locale loaded alone in a fresh interpreter; now-relative Time differences under a local-zone override",
            "Every locale/unit/count/flag combination is formatted; totality, placeholder substitution, direction marker (from the locale's own data) and magnitude are checked; all orderings of <=3 calls must return what each returns alone.",
            "Bound: counts 0..1000, 40-point instant set."),
    "C19": ("exhaustive enumeration: interval seeds x 8 units x steps 1..12 x {forward, inverted, absolute}; sequence compared with independently computed start.add(k*n); keyword and fractional steps, several Intervals alive at once, Intervals obtained by subtraction with native operands",
            "Each range() is unrolled under a horizon and compared element by element with the reference sequence; containment and the in operator are checked.",
            "Bound: seeds listed in the evidence, <= 10^4 elements."),
    "C20": ("exhaustive enumeration: time-of-day grid x amount alphabet x {add, subtract, +td, -td}; all pairs for diff/closest/farthest vs modular integer model; fractional amounts on both sides of the carry thresholds; the absolute difference as the timedelta it is (sign, equality, hash, addable to a Time)",
            "Every (time, amount) pair is evaluated and compared with (t + amount) mod 86400e6 us; every ordered pair of the grid goes through diff and t2 - t1.",
            "Bound: grid (thorough: all 86 400 seconds x 3 microsecond values)."),
}

SECTION = {k: f"DESIGN.md section 3, {k}" for k in T}


def main():
    checks, na = [], []
    for pid in sorted(T):
        tech, text, note = T[pid]
        if os.path.exists(os.path.join(HERE, "pendmc", "props", pid.lower() + ".py")):
            checks.append({
                "property_id": pid,
                "quick_cmd": f"./check {pid} --tier quick",
                "thorough_cmd": f"./check {pid} --tier thorough",
                "evidence_file": f"/verif/evidence/{pid}.json",
                "replay_cmd_template": "./check replay {path}",
                "engine": "pendmc",
                "level_claimed": {"category": "model_checking", "text": text, "design_ref": SECTION[pid]},
                "level_note": note,
                "technique": tech,
            })
        else:
            na.append({"property_id": pid,
                       "reason": "check not built yet (work in progress; bounded exhaustive exploration applies, see DESIGN.md section 3)"})
    man = {
        "version": 1,
        "setup_cmd": "./check setup",
        "hooks": {
            "guard": "PENDULUM_VERIF",
            "enable": "no source hooks are needed: every seam (back end, tz database, week config, locale, now) is reachable from outside; checks import /repo/src afresh in new worker processes and inject a freshly built compiled module",
            "baseline_off_cmd": "cd /repo && /venv/bin/python -m pytest -ra -q -p no:cacheprovider --timeout=900 --continue-on-collection-errors",
            "source_commits": [],
            "add_only": True,
        },
        "engines": [{
            "name": "pendmc",
            "path": "/verif/pendmc",
            "serves_properties": [c["property_id"] for c in checks],
            "kind_free_text": "hand-written explicit-state / bounded exhaustive explorer for the Python implementation: enumerates seeds x operation sequences x environment configurations on the real code in forked worker pools and compares every state/transition with pure-integer reference models (TZif reader, calendar, normalisation, arithmetic)",
        }],
        "checks": checks,
        "not_applicable": na,
        "notes": "Every check additionally repeats a VERIF_SEED-rotated sixth (thorough: third) of its first configuration (a) in a process with a non-default first day of the week and default locale and (b) with the pure-Python helper back end when its own plan does not select it; both are reported in the evidence coverage. Every check: exit 0 = held (KNOWN-FINDING lines for listed findings), exit 1 + VIOLATION line, exit 2 = infrastructure failure. PENDMC_REPO=<dir> points the checks at a scratch copy.",
    }
    with open(os.path.join(HERE, "MANIFEST.json"), "w") as f:
        json.dump(man, f, indent=1)
    print("claimed", [c["property_id"] for c in checks])


if __name__ == "__main__":
    main()
