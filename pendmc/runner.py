"""pendmc runner: ./check <ID> [--tier quick|thorough] | ./check replay <file> | ./check setup

Exit codes: 0 property held on everything explored (known findings only), 1 VIOLATION,
2 infrastructure failure (build, model validation, nondeterminism) - never expected on a sane tree.
"""
from __future__ import annotations

import argparse
import hashlib
import importlib
import json
import multiprocessing as mp
import os
import subprocess
import sys
import time
import traceback

from . import buildext, core, known, worker

VERIF = os.path.dirname(os.path.dirname(os.path.abspath(__file__)))
NPROC = int(os.environ.get("PENDMC_PROCS", "16"))


def repo_path() -> str:
    return os.environ.get("PENDMC_REPO", "/repo")


def out_root() -> str:
    """Evidence and replays of runs against a scratch copy never overwrite those of /repo."""
    if os.path.realpath(repo_path()) == os.path.realpath("/repo") and not os.environ.get("PENDMC_ONLY_KIND"):
        return VERIF
    d = os.path.join(VERIF, ".build", "scratch-out")
    os.makedirs(d, exist_ok=True)
    return d


def _pool_run(modname, config, shards, so, merged, fn="run_shard"):
    ctx = mp.get_context("fork")
    n = min(NPROC, max(1, len(shards)))
    with ctx.Pool(n, initializer=worker.safe_init, initargs=(repo_path(), so, config)) as pool:
        tasks = [(modname, fn, s) for s in shards]
        it = pool.imap_unordered(worker.run, tasks, chunksize=1)
        for _ in tasks:
            # a worker killed from outside would make the pool wait for ever: bound the wait
            r = it.next(timeout=worker.SHARD_WATCHDOG + 300)
            merged.add(r, config)


def _replay_subprocess(path: str):
    """Re-execute one recorded case in a fresh interpreter; returns the parsed JSON verdict."""
    p = subprocess.run([sys.executable, "-m", "pendmc.runner", "replay", path, "--json"],
                       cwd=VERIF, stdout=subprocess.PIPE, stderr=subprocess.PIPE, text=True,
                       env=dict(os.environ))
    try:
        line = [ln for ln in p.stdout.splitlines() if ln.startswith("{")][-1]
        return json.loads(line)
    except Exception:
        return {"error": (p.stdout + p.stderr)[-2000:]}


def cmd_replay(path: str, as_json: bool) -> int:
    with open(path) as f:
        rec = json.load(f)
    modname = rec["property"].lower()
    config = rec["config"]
    so = buildext.ensure(repo_path(), verbose=False) if config.get("ext", 1) else None
    worker.init(repo_path(), so, config)
    mod = importlib.import_module(f"pendmc.props.{modname}")
    acc = core.Acc(rec["property"])
    # as in the shards, an exception that escapes the explorer is the outcome of the case, not a failure of the replay
    with worker.guarded(acc, rec["sub"], rec["case"], 60):
        mod.replay_case(rec["case"], acc)
    res = acc.result()
    sig = f'{rec["sub"]}/{rec["class"]}'
    hits = res["viol"].get(sig, {"cases": []})["cases"]
    still = bool(hits)
    verdict = {"still_violates": still, "signature": sig,
               "observed": hits[0]["observed"] if hits else None,
               "expected": hits[0]["expected"] if hits else None,
               "other_signatures": sorted(k for k in res["viol"] if k != sig),
               "known_findings": sorted(res["kf"])}
    if as_json:
        print(json.dumps(verdict, sort_keys=True))
    else:
        print(f"property  {rec['property']}  check {sig}")
        print(f"config    {json.dumps(config, sort_keys=True)}")
        print(f"case      {json.dumps(rec['case'], sort_keys=True)}")
        print(f"recorded  observed={json.dumps(rec['observed'])} expected={json.dumps(rec['expected'])}")
        if still:
            print(f"replayed  observed={json.dumps(verdict['observed'])} "
                  f"expected={json.dumps(verdict['expected'])}")
            print(f"VIOLATION property={rec['property']} replay={path}")
        elif res["viol"]:
            print(f"replayed  a different mismatch: {verdict['other_signatures']}")
        elif res["kf"]:
            print(f"replayed  matches known finding(s) {verdict['known_findings']}")
        else:
            print("replayed  no mismatch: the recorded violation does not reproduce on this tree")
    return 1 if (still or res["viol"]) else 0


def cmd_setup() -> int:
    so = buildext.ensure(repo_path())
    print("extension:", so)
    # model validation: the reference tz reader must agree with the stdlib on both databases
    for tz in ("sys", "pkg"):
        p = subprocess.run([sys.executable, "-m", "pendmc.selfcheck", tz], cwd=VERIF)
        if p.returncode != 0:
            return 2
    return 0


def cmd_check(prop: str, tier: str) -> int:
    t0 = time.time()
    seed = int(os.environ.get("VERIF_SEED", "0") or 0)
    modname = prop.lower()
    mod = importlib.import_module(f"pendmc.props.{modname}")
    plan = list(mod.plan(tier, seed))
    only = os.environ.get("PENDMC_ONLY_KIND")
    if only:
        # development aid: run only the shards of one kind (output goes to .build/scratch-out, never to /verif/evidence)
        plan = [(cfg, [sh for sh in shards if str(sh.get("kind")) == only]) for cfg, shards in plan]
        plan = [(cfg, shards) for cfg, shards in plan if shards]
    # the same exploration (a seed-rotated sixth / third of the first configuration's shards) in a process whose
    # ambient settings are not the defaults: first day of the week = Sunday, default locale = fr
    ambient = getattr(mod, "AMBIENT", {"ws": 6, "locale": "fr"})
    amb_shards = 0
    if ambient:
        k = 3 if tier == "thorough" else 6
        cfg0, shards0 = plan[0]
        sub = shards0[seed % k::k] or shards0[:1]
        plan.append((dict(cfg0, ambient=ambient), sub))
        amb_shards = len(sub)
    # ... and with the pure-Python helper back end when the module's own plan never selects it in this tier
    swap_shards = 0
    if getattr(mod, "BACKEND_SWAP", True) and all(cfg.get("ext", 1) for cfg, _ in plan):
        k = 3 if tier == "thorough" else 6
        cfg0, shards0 = plan[0]
        sub = shards0[(seed + 3) % k::k] or shards0[:1]
        plan.append((dict(cfg0, ext=0), sub))
        swap_shards = len(sub)
    need_ext = any(cfg.get("ext", 1) for cfg, _ in plan)
    try:
        so = buildext.ensure(repo_path()) if need_ext else None
    except Exception as e:  # noqa: BLE001
        print(f"INFRA build failed: {e}", file=sys.stderr)
        return 2
    merged = core.Merged()
    try:
        for config, shards in plan:
            _pool_run(modname, config, shards, so, merged)
    except Exception:  # noqa: BLE001
        traceback.print_exc()
        print("INFRA worker failure", file=sys.stderr)
        return 2
    merged.finalize()

    # ---- violations: one replay file + one line per signature; double replay of representative
    rdir = os.path.join(out_root(), "replays", prop)
    lines = []
    infra = False
    vio_summary = {}
    dropped = {}
    for sig in sorted(merged.viol):
        v = merged.viol[sig]
        rep = v["cases"][0]
        rec = {"property": prop, "sub": rep["sub"], "class": rep["class"], "config": rep["config"],
               "case": rep["case"], "observed": rep["observed"], "expected": rep["expected"],
               "note": rep.get("note"), "count_in_run": v["count"], "tier": tier, "seed": seed,
               "more_cases": [c["case"] for c in v["cases"][1:]]}
        digest = hashlib.sha256(json.dumps([sig, rec["config"], rec["case"]], sort_keys=True)
                                .encode()).hexdigest()[:16]
        os.makedirs(rdir, exist_ok=True)
        path = os.path.join(rdir, f"{digest}.json")
        with open(path, "w") as f:
            json.dump(rec, f, indent=1, sort_keys=True)
        r1 = _replay_subprocess(path)
        r2 = _replay_subprocess(path)
        cls = "confirmed"
        if "error" in r1 or "error" in r2:
            cls = "replay-error"
            print(f"INFRA replay failed for {sig}: {r1.get('error') or r2.get('error')}",
                  file=sys.stderr)
            infra = True
        elif r1 != r2 and r1.get("still_violates") and r2.get("still_violates") \
                and sorted(r1.get("other_signatures") or []) == sorted(r2.get("other_signatures") or []) \
                and sorted(map(str, r1.get("known_findings") or [])) == sorted(map(str, r2.get("known_findings") or [])):
            # both fresh processes reproduce the violation with the same signatures, only the observed VALUE differs: the
            # code under test consults something the harness does not own (the clock: a change that makes a result
            # depend on now()).  The violation stands; the variation is recorded.
            cls = "confirmed-observation-varies"
            rec["observation_varies_between_replays"] = [r1.get("observed"), r2.get("observed")]
        elif r1 != r2:
            cls = "nondeterministic"
            print(f"INFRA nondeterministic replay for {sig}: {r1} vs {r2}", file=sys.stderr)
            infra = True
        elif not r1["still_violates"] and "HANG" in sig:
            # non-termination is deterministic: a horizon expiry that does not reproduce from its recorded
            # case in two fresh processes was a scheduling artefact, not a behaviour of the code under test
            dropped[sig] = v["count"]
            os.unlink(path)
            continue
        elif not r1["still_violates"]:
            cls = "history-dependent"   # seen inside a shard, not from a fresh process
        rec["replay_classification"] = cls
        with open(path, "w") as f:
            json.dump(rec, f, indent=1, sort_keys=True)
        vio_summary[sig] = {"count": v["count"], "replay": path, "classification": cls}
        lines.append(f"VIOLATION property={prop} replay={path}  # {sig} x{v['count']} "
                     f"observed={json.dumps(rep['observed'])[:160]} "
                     f"expected={json.dumps(rep['expected'])[:160]}")

    for k in sorted(merged.kf):
        e = known.entry(k) or {}
        print(f"KNOWN-FINDING: property={prop} {k}: {e.get('what', '')} "
              f"[{merged.kf[k]['count']} occurrences in this run]")
    for ln in lines:
        print(ln)

    # ---- evidence
    ev = mod.evidence(merged, tier, seed)
    cov = ev["coverage"]
    cov.setdefault("samples", merged.samples[:8] or ["<none>"])
    cov["outcome_classes"] = dict(merged.outcomes)
    if swap_shards:
        cov["python_backend_repeat"] = {"shards_repeated": swap_shards, "of_first_configuration": len(plan[0][1])}
    if ambient:
        cov["ambient_configuration"] = {"settings": ambient, "shards_repeated": amb_shards,
                                        "of_first_configuration": len(plan[0][1])}
    cov["known_finding_hits"] = {k: v["count"] for k, v in merged.kf.items()}
    cov["violation_signatures"] = vio_summary
    cov["unreproduced_horizon_expiries_dropped"] = dropped
    cov["configs"] = [cfg for cfg, _ in plan]
    cov["shards"] = merged.shards
    cov["counters"] = dict(merged.c)
    out = {"property_id": prop, "tier": tier, "seed": seed, "level": "model_checking",
           "coverage": cov, "assumptions": ev.get("assumptions", []),
           "wall_s": round(time.time() - t0, 2), "violations": len(vio_summary)}
    os.makedirs(os.path.join(out_root(), "evidence"), exist_ok=True)
    with open(os.path.join(out_root(), "evidence", f"{prop}.json"), "w") as f:
        json.dump(out, f, indent=1, sort_keys=True)
    print(f"[{prop} {tier} seed={seed}] evaluations={cov.get('evaluations')} states={cov.get('states')} "
          f"transitions={cov.get('transitions')} nontrivial={cov.get('distinct_nontrivial')} "
          f"violations={len(vio_summary)} known={len(merged.kf)} wall={out['wall_s']}s")
    if infra:
        return 2
    return 1 if vio_summary else 0


def main(argv=None) -> int:
    argv = list(sys.argv[1:] if argv is None else argv)
    if not argv:
        print(__doc__)
        return 2
    if argv[0] == "setup":
        return cmd_setup()
    if argv[0] == "replay":
        return cmd_replay(argv[1], "--json" in argv)
    ap = argparse.ArgumentParser()
    ap.add_argument("prop")
    ap.add_argument("--tier", default=os.environ.get("VERIF_TIER") or "quick",
                    choices=["quick", "thorough"])
    a = ap.parse_args(argv)
    return cmd_check(a.prop.upper(), a.tier)


if __name__ == "__main__":
    sys.exit(main())
