"""Known findings: which signatures are listed in /verif/known_findings.json.

The file is committed and never written at run time.  An entry
    {"id": "C12-boundary-fold", "property": "C12", "status": "open", "what": "...", "witness": {...}}
makes `is_open('C12', 'C12-boundary-fold')` true; entries with status "fixed" suppress nothing.
The *predicates* that decide whether an observed mismatch belongs to a finding (input class AND
defect model) live next to the check that can evaluate them (pendmc/props/cNN.py: functions named
kf_*); this module only answers "is that id listed as open".
"""
from __future__ import annotations

import json
import os
from functools import lru_cache

PATH = os.path.join(os.path.dirname(os.path.dirname(os.path.abspath(__file__))),
                    "known_findings.json")


@lru_cache(maxsize=None)
def _load():
    if not os.path.exists(PATH):
        return {"findings": [], "fixed": []}
    with open(PATH) as f:
        return json.load(f)


def is_open(prop: str, kf_id: str) -> bool:
    for e in _load().get("findings", []):
        if e["id"] == kf_id and e["property"] == prop and e.get("status", "open") == "open":
            return True
    return False


def entry(kf_id: str):
    for e in _load().get("findings", []):
        if e["id"] == kf_id:
            return e
    return None


def open_ids(prop: str):
    return [e["id"] for e in _load().get("findings", [])
            if e["property"] == prop and e.get("status", "open") == "open"]
