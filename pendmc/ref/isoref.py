"""Constructive ISO 8601 oracle: render values into every ISO form (no regex shared with pendulum)."""
from __future__ import annotations

from . import calref

DATE_FORMS = ("cal-ext", "cal-bas", "ord-ext", "ord-bas", "week-ext", "week-bas")


def render_date(y, m, d, form):
    if form == "cal-ext":
        return f"{y:04d}-{m:02d}-{d:02d}"
    if form == "cal-bas":
        return f"{y:04d}{m:02d}{d:02d}"
    if form in ("ord-ext", "ord-bas"):
        n = calref.day_of_year(y, m, d)
        return f"{y:04d}-{n:03d}" if form == "ord-ext" else f"{y:04d}{n:03d}"
    iy, iw, wd = calref.iso_calendar(y, m, d)
    if form == "week-ext":
        return f"{iy:04d}-W{iw:02d}-{wd}"
    if form == "week-bas":
        return f"{iy:04d}W{iw:02d}{wd}"
    raise KeyError(form)


def render_time(h, mi, s, frac, ext, precision="s"):
    """frac: digit string or None; precision 'h'|'m'|'s'."""
    if precision == "h":
        return f"{h:02d}"
    sep = ":" if ext else ""
    if precision == "m":
        return f"{h:02d}{sep}{mi:02d}"
    t = f"{h:02d}{sep}{mi:02d}{sep}{s:02d}"
    if frac is not None:
        t += frac[0] + frac[1]          # (separator, digits)
    return t


def render_offset(off_min, form):
    """off_min: signed minutes or 'Z' or None. form in colon|nocolon|hour."""
    if off_min is None:
        return ""
    if off_min == "Z":
        return "Z"
    sign = "-" if off_min < 0 else "+"
    a = abs(off_min)
    if form == "colon":
        return f"{sign}{a // 60:02d}:{a % 60:02d}"
    if form == "nocolon":
        return f"{sign}{a // 60:02d}{a % 60:02d}"
    if form == "hour":
        assert a % 60 == 0
        return f"{sign}{a // 60:02d}"
    raise KeyError(form)


def frac_us(digits):
    """Microseconds denoted by a fraction digit string, extra digits truncated."""
    return int((digits + "000000")[:6])
