"""Reference proleptic-Gregorian calendar: closed-form day counts (no tables shared with pendulum)."""
from __future__ import annotations


def is_leap(y: int) -> bool:
    return (y % 4 == 0 and y % 100 != 0) or y % 400 == 0


def days_in_month(y: int, m: int) -> int:
    if m == 2:
        return 29 if is_leap(y) else 28
    return 30 if m in (4, 6, 9, 11) else 31


def days_in_year(y: int) -> int:
    return 366 if is_leap(y) else 365


def days_from_civil(y: int, m: int, d: int) -> int:
    """Days since 1970-01-01 (Howard Hinnant's algorithm)."""
    y -= m <= 2
    era = y // 400
    yoe = y - era * 400
    doy = (153 * (m + (-3 if m > 2 else 9)) + 2) // 5 + d - 1
    doe = yoe * 365 + yoe // 4 - yoe // 100 + doy
    return era * 146097 + doe - 719468


def civil_from_days(z: int):
    z += 719468
    era = z // 146097
    doe = z - era * 146097
    yoe = (doe - doe // 1460 + doe // 36524 - doe // 146096) // 365
    y = yoe + era * 400
    doy = doe - (365 * yoe + yoe // 4 - yoe // 100)
    mp = (5 * doy + 2) // 153
    d = doy - (153 * mp + 2) // 5 + 1
    m = mp + (3 if mp < 10 else -9)
    return (y + (m <= 2), m, d)


def iso_weekday(y: int, m: int, d: int) -> int:
    """1 = Monday .. 7 = Sunday."""
    return (days_from_civil(y, m, d) + 3) % 7 + 1


def day_of_year(y: int, m: int, d: int) -> int:
    return days_from_civil(y, m, d) - days_from_civil(y, 1, 1) + 1


def iso_calendar(y: int, m: int, d: int):
    """(iso year, iso week, iso weekday)."""
    n = days_from_civil(y, m, d)
    wd = (n + 3) % 7 + 1
    thursday = n - wd + 4
    ty = civil_from_days(thursday)[0]
    week = (thursday - days_from_civil(ty, 1, 1)) // 7 + 1
    return ty, week, wd


def iso_weeks_in_year(y: int) -> int:
    return iso_calendar(y, 12, 28)[1]


def from_iso_calendar(iy: int, iw: int, wd: int):
    jan4 = days_from_civil(iy, 1, 4)
    monday1 = jan4 - ((jan4 + 3) % 7)
    return civil_from_days(monday1 + (iw - 1) * 7 + wd - 1)


def add_months(y: int, m: int, d: int, months: int):
    """Shift by whole months, clamping the day to the length of the target month."""
    t = y * 12 + (m - 1) + months
    ny, nm = divmod(t, 12)
    nm += 1
    return ny, nm, min(d, days_in_month(ny, nm))


def quarter(m: int) -> int:
    return (m - 1) // 3 + 1
