"""Reference tz-database model: an independent TZif (RFC 8536) reader and POSIX-TZ footer evaluator.

Pure integers.  Never imports pendulum.  Resolves the *same file the process resolves*: first the
directories of zoneinfo.TZPATH, then the `tzdata` wheel, exactly as zoneinfo does.
"""
from __future__ import annotations

import bisect
import os
import struct
from functools import lru_cache

from . import calref

DAY = 86400
US = 1_000_000


def _resolve(name: str) -> bytes:
    import zoneinfo
    for root in zoneinfo.TZPATH:
        p = os.path.join(root, name)
        if os.path.isfile(p):
            with open(p, "rb") as f:
                return f.read()
    from importlib import resources
    parts = name.split("/")
    pkg = ".".join(["tzdata", "zoneinfo"] + parts[:-1])
    return resources.files(pkg).joinpath(parts[-1]).read_bytes()


def zone_names() -> tuple[str, ...]:
    """The names pendulum.timezones() advertises (tzdata wheel 'zones' file), read independently."""
    from importlib import resources
    txt = resources.files("tzdata").joinpath("zones").read_text()
    return tuple(x.strip() for x in txt.splitlines() if x.strip())


# ---------------------------------------------------------------------------------- POSIX TZ

class _Rule:
    __slots__ = ("kind", "m", "w", "d", "n", "time")

    def at(self, year: int) -> int:
        """seconds since the epoch of local 00:00 of the rule day + time (still local)."""
        if self.kind == "M":
            first = calref.days_from_civil(year, self.m, 1)
            wd = (first + 4) % 7  # 1970-01-01 was a Thursday; 0 = Sunday
            day = 1 + (self.d - wd) % 7 + (self.w - 1) * 7
            dim = calref.days_in_month(year, self.m)
            while day > dim:
                day -= 7
            days = first + day - 1
        elif self.kind == "J":
            n = self.n  # 1..365, Feb 29 never counted
            days = calref.days_from_civil(year, 1, 1) + n - 1
            if calref.is_leap(year) and n >= 60:
                days += 1
        else:
            days = calref.days_from_civil(year, 1, 1) + self.n  # 0..365
        return days * DAY + self.time


class Posix:
    def __init__(self, s: str):
        self.text = s
        i = 0

        def name():
            nonlocal i
            if s[i] == "<":
                j = s.index(">", i)
                r = s[i + 1:j]
                i = j + 1
                return r
            j = i
            while j < len(s) and s[j].isalpha():
                j += 1
            r = s[i:j]
            i = j
            return r

        def hms():
            nonlocal i
            sign = 1
            if i < len(s) and s[i] in "+-":
                sign = -1 if s[i] == "-" else 1
                i += 1
            j = i
            while j < len(s) and (s[j].isdigit() or s[j] == ":"):
                j += 1
            parts = [int(x) for x in s[i:j].split(":")]
            i = j
            parts += [0] * (3 - len(parts))
            return sign * (parts[0] * 3600 + parts[1] * 60 + parts[2])

        def rule():
            nonlocal i
            r = _Rule()
            r.m = r.w = r.d = r.n = 0
            if s[i] == "M":
                i += 1
                j = i
                while j < len(s) and (s[j].isdigit() or s[j] == "."):
                    j += 1
                r.kind = "M"
                r.m, r.w, r.d = (int(x) for x in s[i:j].split("."))
                i = j
            elif s[i] == "J":
                i += 1
                j = i
                while j < len(s) and s[j].isdigit():
                    j += 1
                r.kind = "J"
                r.n = int(s[i:j])
                i = j
            else:
                j = i
                while j < len(s) and s[j].isdigit():
                    j += 1
                r.kind = "N"
                r.n = int(s[i:j])
                i = j
            r.time = 7200
            if i < len(s) and s[i] == "/":
                i += 1
                r.time = hms()
            return r

        self.std_abbr = name()
        self.std_off = -hms()
        self.dst_abbr = None
        self.dst_off = None
        self.start = self.end = None
        if i < len(s):
            self.dst_abbr = name()
            if i < len(s) and s[i] != ",":
                self.dst_off = -hms()
            else:
                self.dst_off = self.std_off + 3600
            if i < len(s) and s[i] == ",":
                i += 1
                self.start = rule()
                assert s[i] == ","
                i += 1
                self.end = rule()
            assert i == len(s), s
            assert self.start is not None, s

    def year_transitions(self, year: int):
        """[(utc_s, off_before, off_after, isdst_after, abbr_after)] of `year`, sorted."""
        if self.dst_abbr is None:
            return []
        a = self.start.at(year) - self.std_off  # start is expressed in standard time
        b = self.end.at(year) - self.dst_off    # end is expressed in daylight time
        out = [(a, self.std_off, self.dst_off, 1, self.dst_abbr),
               (b, self.dst_off, self.std_off, 0, self.std_abbr)]
        out.sort()
        return out

    def lookup(self, t: int):
        if self.dst_abbr is None:
            return self.std_off, 0, self.std_abbr
        year = calref.civil_from_days((t + self.std_off) // DAY)[0]
        a = self.start.at(year) - self.std_off
        b = self.end.at(year) - self.dst_off
        if a < b:
            dst = a <= t < b
        else:
            dst = not (b <= t < a)
        if dst:
            return self.dst_off, 1, self.dst_abbr
        return self.std_off, 0, self.std_abbr


# ---------------------------------------------------------------------------------- TZif

class Zone:
    def __init__(self, name: str, data: bytes):
        self.name = name
        assert data[:4] == b"TZif", name
        version = data[4:5]

        def header(off):
            return struct.unpack(">6l", data[off + 20:off + 44])

        off = 0
        isutcnt, isstdcnt, leapcnt, timecnt, typecnt, charcnt = header(0)
        tsize = 4
        if version >= b"2":
            off = 44 + timecnt * 4 + timecnt + typecnt * 6 + charcnt + leapcnt * 8 + isstdcnt + isutcnt
            isutcnt, isstdcnt, leapcnt, timecnt, typecnt, charcnt = header(off)
            tsize = 8
        p = off + 44
        fmt = ">%d%s" % (timecnt, "q" if tsize == 8 else "l")
        self.trans = list(struct.unpack(fmt, data[p:p + timecnt * tsize]))
        p += timecnt * tsize
        self.idx = list(data[p:p + timecnt])
        p += timecnt
        ttis = []
        for k in range(typecnt):
            utoff, isdst, ai = struct.unpack(">lBB", data[p:p + 6])
            ttis.append((utoff, isdst, ai))
            p += 6
        chars = data[p:p + charcnt]
        p += charcnt
        p += leapcnt * (tsize + 4) + isstdcnt + isutcnt
        self.ttis = [(o, d, chars[a:chars.index(b"\0", a)].decode()) for o, d, a in ttis]
        self.footer = None
        if version >= b"2":
            rest = data[p:]
            if rest[:1] == b"\n":
                line = rest[1:rest.index(b"\n", 1)].decode()
                if line:
                    self.footer = Posix(line)
        self.before = self.ttis[0]
        offs = {o for o, _, _ in self.ttis}
        if self.footer:
            offs.add(self.footer.std_off)
            if self.footer.dst_off is not None:
                offs.add(self.footer.dst_off)
        self.all_offsets = sorted(offs)

    def lookup(self, t: int):
        """(utcoffset seconds, isdst, abbreviation) in force at UTC second t."""
        tr = self.trans
        if not tr:
            if self.footer:
                return self.footer.lookup(t)
            return self.before
        if t < tr[0]:
            return self.before
        if t >= tr[-1] and self.footer is not None:
            return self.footer.lookup(t)
        return self.ttis[self.idx[bisect.bisect_right(tr, t) - 1]]

    def offset(self, t: int) -> int:
        return self.lookup(t)[0]

    def transitions(self, extra_years=()):
        """[(utc_s, off_before, off_after)] for every change of UTC offset: the explicit table, the
        footer rule for every year from the last explicit transition to 2037, plus `extra_years`."""
        out = []
        prev = self.before[0]
        for t, i in zip(self.trans, self.idx):
            o = self.ttis[i][0]
            if o != prev:
                out.append((t, prev, o))
            prev = o
        if self.footer and self.footer.dst_abbr is not None:
            last = self.trans[-1] if self.trans else -(1 << 62)
            y0 = calref.civil_from_days(max(last, -62135596800) // DAY)[0] if self.trans else 1970
            years = list(range(max(y0, 1900), 2038)) + [y for y in extra_years if y > 2037]
            for y in years:
                for t, ob, oa, _, _ in self.footer.year_transitions(y):
                    if t > last and ob != oa and MIN_T < t < MAX_T:
                        out.append((t, ob, oa))
        return [x for x in out if MIN_T < x[0] < MAX_T]

    def solve(self, wall_s: int):
        """All UTC seconds whose local rendering is the wall-clock second `wall_s`, ascending."""
        sols = []
        for o in self.all_offsets:
            u = wall_s - o
            if self.lookup(u)[0] == o:
                sols.append(u)
        sols.sort()
        return sols

    def gap_around(self, wall_s: int):
        """For a skipped wall time: (off_before, off_after) of the transition that skips it."""
        best = None
        for ob in self.all_offsets:
            for oa in self.all_offsets:
                if oa <= ob:
                    continue
                # transition instant T with offset ob before and oa after, T+ob <= wall < T+oa
                lo, hi = wall_s - oa, wall_s - ob  # T in (lo, hi]
                T = self._change_in(lo, hi, ob, oa)
                if T is not None:
                    best = (ob, oa, T)
        return best

    def _change_in(self, lo, hi, ob, oa):
        # find T in (lo, hi] with lookup(T-1) == ob and lookup(T) == oa
        cands = []
        i = bisect.bisect_right(self.trans, lo)
        while i < len(self.trans) and self.trans[i] <= hi:
            cands.append(self.trans[i])
            i += 1
        if self.footer and self.footer.dst_abbr is not None:
            y = calref.civil_from_days(hi // DAY)[0]
            for yy in (y - 1, y, y + 1):
                for t, *_ in self.footer.year_transitions(yy):
                    if lo < t <= hi:
                        cands.append(t)
        for T in cands:
            if self.lookup(T - 1)[0] == ob and self.lookup(T)[0] == oa:
                return T
        return None


MIN_T = -62135596800 + 2 * 366 * DAY      # keep clear of year 1
MAX_T = 253402300799 - 2 * 366 * DAY      # and of year 9999


class Fixed:
    """Fixed-offset zone with the same interface."""

    def __init__(self, seconds: int):
        self.name = seconds
        self.off = seconds
        self.all_offsets = [seconds]
        self.trans = []

    def lookup(self, t):
        return self.off, 0, None

    def offset(self, t):
        return self.off

    def transitions(self, extra_years=()):
        return []

    def solve(self, wall_s):
        return [wall_s - self.off]

    def gap_around(self, wall_s):
        return None


@lru_cache(maxsize=None)
def zone(name):
    if isinstance(name, int):
        return Fixed(name)
    return Zone(name, _resolve(name))


def render(z, instant_us: int):
    """(year, month, day, hour, minute, second, microsecond, utcoffset_s) of an instant in zone z."""
    s, us = divmod(instant_us, US)
    off = z.lookup(s)[0]
    days, sod = divmod(s + off, DAY)
    y, m, d = calref.civil_from_days(days)
    return (y, m, d, sod // 3600, sod % 3600 // 60, sod % 60, us, off)


def wall_us(fields) -> int:
    y, m, d, hh, mm, ss, us = fields[:7]
    return ((calref.days_from_civil(y, m, d) * DAY) + hh * 3600 + mm * 60 + ss) * US + us


def normalize(z, fields, fold: int):
    """C02 reference rule.  Returns (kind, instant_us) with kind in {'unique','repeated','skipped'}.

    unique   -> that instant
    repeated -> later occurrence with fold=1, earlier with fold=0
    skipped  -> moved forward by the gap with fold=1 (instant = wall - offset_before),
                backward with fold=0 (instant = wall - offset_after)
    Returns (kind, None) for shapes this model does not define (three or more solutions, nested gaps).
    """
    w = wall_us(fields)
    ws, us = divmod(w, US)
    sols = z.solve(ws)
    if len(sols) == 1:
        return "unique", sols[0] * US + us
    if len(sols) == 2:
        return "repeated", (sols[1] if fold else sols[0]) * US + us
    if len(sols) == 0:
        g = z.gap_around(ws)
        if g is None:
            return "skipped", None
        ob, oa, T = g
        inst = (ws - ob) if fold else (ws - oa)
        # result must be a valid local time on the far side of the transition
        if z.lookup(inst)[0] != (oa if fold else ob):
            return "skipped", None
        return "skipped", inst * US + us
    return "multi", None
