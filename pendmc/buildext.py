"""Build the compiled helpers (rust/ -> _pendulum .so) from the working tree, offline.

The result is cached under /verif/.build/so/<hash>.so where <hash> covers every file that
influences the build (rust/src/**, Cargo.toml, Cargo.lock).  The in-tree .so is never used:
it is git-ignored and may be stale after a source edit.
"""
from __future__ import annotations

import fcntl
import hashlib
import os
import shutil
import subprocess
import sys
import tempfile
import time

VERIF = os.path.dirname(os.path.dirname(os.path.abspath(__file__)))
BUILD = os.path.join(VERIF, ".build")


def rust_hash(repo: str) -> str:
    h = hashlib.sha256()
    rust = os.path.join(repo, "rust")
    files = []
    for name in ("Cargo.toml", "Cargo.lock"):
        p = os.path.join(rust, name)
        if os.path.exists(p):
            files.append(p)
    for root, dirs, names in os.walk(os.path.join(rust, "src")):
        dirs.sort()
        for n in sorted(names):
            files.append(os.path.join(root, n))
    for p in files:
        h.update(os.path.relpath(p, rust).encode() + b"\0")
        with open(p, "rb") as f:
            h.update(f.read())
        h.update(b"\0")
    return h.hexdigest()[:20]


def ensure(repo: str, verbose: bool = True) -> str:
    """Return the path of an up-to-date extension module for `repo`'s rust sources."""
    os.makedirs(os.path.join(BUILD, "so"), exist_ok=True)
    key = rust_hash(repo)
    out = os.path.join(BUILD, "so", f"{key}.so")
    if os.path.exists(out):
        return out
    lock = open(os.path.join(BUILD, "build.lock"), "w")
    fcntl.flock(lock, fcntl.LOCK_EX)
    try:
        if os.path.exists(out):
            return out
        # Every build gets a PRIVATE target directory, seeded with a copy of a warm base (dependencies
        # compiled once).  A target directory shared between source trees is unsound: cargo's fingerprint of
        # a path package does not depend on the absolute path, so while another scratch copy still exists a
        # build can be judged "fresh" and the previous tree's artefact would be reused.
        base = os.path.join(BUILD, "rust-target-base")
        target = tempfile.mkdtemp(prefix="rust-target-", dir=BUILD)
        env = dict(os.environ)
        env.update(CARGO_NET_OFFLINE="true", PYO3_PYTHON="/venv/bin/python")
        t0 = time.time()
        if verbose:
            print(f"[build] cargo build --release --offline ({repo}/rust, key {key})",
                  file=sys.stderr, flush=True)
        try:
            if os.path.isdir(os.path.join(base, "release", "deps")):
                shutil.rmtree(target)
                shutil.copytree(base, target, symlinks=True)
                # drop the crate's own artefacts and fingerprints: only the dependencies are reused
                for sub in ("deps", ".fingerprint", "incremental", "."):
                    d = os.path.join(target, "release", sub)
                    if os.path.isdir(d):
                        for n in os.listdir(d):
                            if "_pendulum" in n:
                                pth = os.path.join(d, n)
                                shutil.rmtree(pth) if os.path.isdir(pth) else os.unlink(pth)
            env["CARGO_TARGET_DIR"] = target
            p = subprocess.run(
                ["cargo", "build", "--release", "--offline", "--manifest-path",
                 os.path.join(repo, "rust", "Cargo.toml")],
                env=env, stdout=subprocess.PIPE, stderr=subprocess.STDOUT, text=True)
            if p.returncode != 0:
                sys.stderr.write(p.stdout[-4000:])
                raise RuntimeError("cargo build failed")
            if " Compiling _pendulum" not in p.stdout:
                raise RuntimeError("cargo did not recompile the crate: refusing a possibly stale artefact")
            built = os.path.join(target, "release", "lib_pendulum.so")
            tmp = out + f".tmp{os.getpid()}"
            shutil.copyfile(built, tmp)
            os.replace(tmp, out)
            if not os.path.isdir(os.path.join(base, "release", "deps")):
                shutil.rmtree(base, ignore_errors=True)
                os.replace(target, base)     # first build: keep it as the warm base
        finally:
            shutil.rmtree(target, ignore_errors=True)
        if verbose:
            print(f"[build] done in {time.time() - t0:.1f}s -> {out}", file=sys.stderr,
                  flush=True)
        # keep the cache small: at most 12 cached modules
        sos = sorted((os.path.join(BUILD, "so", n) for n in os.listdir(os.path.join(BUILD, "so"))
                      if n.endswith(".so")), key=os.path.getmtime)
        for old in sos[:-12]:
            if old != out:
                os.unlink(old)
        return out
    finally:
        fcntl.flock(lock, fcntl.LOCK_UN)
        lock.close()


if __name__ == "__main__":
    print(ensure(sys.argv[1] if len(sys.argv) > 1 else "/repo"))
