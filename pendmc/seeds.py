"""Seed enumerations shared by the tz-related checks (all deterministic, derived from the tz data)."""
from __future__ import annotations

from .ref import calref, tzref

US = 1_000_000
DAY = 86400

WITNESS = (
    "UTC", "Europe/Paris", "America/New_York", "Australia/Lord_Howe", "Asia/Kolkata",
    "Asia/Kathmandu", "America/St_Johns", "Pacific/Kiritimati", "Pacific/Apia",
    "America/Sao_Paulo", "Africa/Casablanca", "Europe/Dublin", "Africa/Monrovia",
)
WITNESS_FIXED = (-(23 * 3600 + 59 * 60), -60, 0, 19800, 23 * 3600 + 59 * 60)
SUBMINUTE_FIXED = (3661, -17762, 19830, 59, -1)
EXTRA_YEARS = (2100, 2400, 9990)


def all_zones():
    return tzref.zone_names()


def witness_zones(seed: int = 0, extra: int = 4):
    names = list(WITNESS)
    allz = all_zones()
    k = 0
    i = seed * 7919 + 13
    while k < extra:
        z = allz[i % len(allz)]
        i += 104729
        if z not in names:
            names.append(z)
            k += 1
    return names


def zone_transitions(name: str):
    return tzref.zone(name).transitions(extra_years=EXTRA_YEARS)


def pick_transitions(trs, limit: int, seed: int):
    """Deterministic sub-lattice: first 2, last 3, evenly spread, rotated by the seed."""
    n = len(trs)
    if n <= limit:
        return list(trs)
    idx = {0, 1, n - 1, n - 2, n - 3}
    step = n / max(1, (limit - len(idx)))
    x = (seed % 97) / 97.0 * step
    while len(idx) < limit and x < n:
        idx.add(int(x))
        x += step
    i = seed % n
    while len(idx) < limit:
        idx.add(i % n)
        i += 1
    return [trs[i] for i in sorted(idx)]


def probe_instants(t: int, ob: int, oa: int, full: bool = True):
    """P(t) in microseconds since the epoch."""
    g = abs(oa - ob)
    T = t * US
    ps = [T - 1, T, T + 1, T - g * US, T + g * US - 1]
    if full:
        ps += [T - US, T + US, T - g * US - 1, T + g * US]
    return ps


def wall_probes(t: int, ob: int, oa: int):
    """Wp(t): wall-clock microseconds around the skipped/repeated wall interval [lo, hi)."""
    lo, hi = (t + ob, t + oa) if oa > ob else (t + oa, t + ob)
    lo *= US
    hi *= US
    return [lo - 1, lo, (lo + hi) // 2, hi - 1, hi]


def grid_instants(step_years: int = 37):
    out = []
    for y in range(2, 9999, step_years):
        out.append((calref.days_from_civil(y, 6, 15) * DAY + 43200) * US + 123456)
    out.append((calref.days_from_civil(2, 1, 2) * DAY) * US)
    out.append((calref.days_from_civil(9998, 12, 30) * DAY + 86399) * US + 999999)
    return out


def fields_of_wall(w_us: int):
    s, us = divmod(w_us, US)
    days, sod = divmod(s, DAY)
    y, m, d = calref.civil_from_days(days)
    return (y, m, d, sod // 3600, sod % 3600 // 60, sod % 60, us)


def chunks(seq, n):
    seq = list(seq)
    k = max(1, (len(seq) + n - 1) // n)
    return [seq[i:i + k] for i in range(0, len(seq), k)]


def calendar_edge_instants():
    """UTC instants (us) on calendar edges of every kind of year: the last/first days of February, year ends and a
    month end, for common years, ordinary leap years (divisible by 16 or not), and century years of both kinds.
    Arithmetic that goes through a month-length or leap-year table is only exercised on such days."""
    from .ref import calref
    out = []
    for y in (1896, 1900, 1904, 1999, 2000, 2004, 2016, 2023, 2024, 2100, 2400):
        for (m, d, hh, mi) in ((2, 28, 23, 30), (2, 29, 12, 0), (3, 1, 0, 30), (12, 31, 23, 59), (1, 1, 0, 0), (1, 31, 12, 0),
                               (2, 28, 20, 0)):
            if d > calref.days_in_month(y, m):
                continue
            out.append(((calref.days_from_civil(y, m, d) * 86400) + hh * 3600 + mi * 60 + 59) * 1_000_000 + 999_999)
    return out
