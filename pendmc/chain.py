"""Explicit-state search over operation SEQUENCES on DateTime values (shared by C01, C03, C04).

Model state          : (zone, instant_us).
Implementation state : the live DateTime; states are de-duplicated on obs.obs_key (fields, offset, zone name and the
                       raw fold only where it selects the instant) PLUS the raw fold flag, so that two objects for one
                       model state that differ only in hidden state (fold on an unambiguous wall time) are both kept
                       and must behave alike.
Transitions          : conversions (in_timezone to the zone itself, to UTC, to other zones and to the fixed offsets
                       that collide with the seed transition's own offsets), fixed-length arithmetic (add/subtract of
                       hours/minutes/seconds, +/- timedelta) and calendar arithmetic (days, weeks, months).  The model
                       successor is computed by the reference models of C01/C03/C04.
Oracle               : every successor equals the reference rendering of the model successor; therefore all
                       implementation states of one model state give observationally equal results (route
                       independence), whatever sequence produced them.
Breadth-first to a fixed depth from every seed; the caller chooses which operation kinds are *checked* (the
others only serve as routes).
"""
from __future__ import annotations

import datetime as dt_

from . import obs, seeds
from .ref import tzref

US = 1_000_000
_TZ = {}


def _tz(pendulum, z):
    t = _TZ.get(z)
    if t is None:
        t = _TZ[z] = pendulum.timezone(z)
    return t


def ops_for(zones):
    """[(name, kind, apply(pendulum, x), model(z, inst) -> (z', inst') | None)]"""
    ops = []
    for w in zones:
        ops.append((f"in_timezone({w})", "conv", (lambda p, x, w=w: x.in_timezone(_tz(p, w))), (lambda z, i, w=w: (w, i))))
    for name, kw in (("add(hours=1)", {"hours": 1}), ("subtract(hours=1)", {"hours": -1}), ("add(minutes=30)", {"minutes": 30}),
                     ("add(seconds=86400)", {"seconds": 86400}), ("subtract(minutes=90, microseconds=1)", {"minutes": -90, "microseconds": -1})):
        amt = (kw.get("hours", 0) * 3600 + kw.get("minutes", 0) * 60 + kw.get("seconds", 0)) * US + kw.get("microseconds", 0)
        ops.append((name, "fixed", (lambda p, x, kw=kw: x.add(**kw)), (lambda z, i, amt=amt: (z, i + amt))))
    ops.append(("+ timedelta(hours=-1)", "fixed", (lambda p, x: x + dt_.timedelta(hours=-1)), (lambda z, i: (z, i - 3600 * US))))
    ops.append(("- timedelta(minutes=-61)", "fixed", (lambda p, x: x - dt_.timedelta(minutes=-61)), (lambda z, i: (z, i + 3660 * US))))
    for name, kw in (("add(days=1)", {"days": 1}), ("subtract(days=1)", {"days": -1}), ("add(months=1)", {"months": 1}),
                     ("subtract(months=1)", {"months": -1}), ("add(weeks=1)", {"weeks": 1}), ("add(days=1, hours=-1)", {"days": 1, "hours": -1})):
        def model(z, i, kw=kw):
            from .props import c04
            f = obs.expected_render(z, i)[0]
            e = c04.expected(z, f, kw, 1)
            if e is None:
                return None
            ef, eo = e
            return (z, obs.wall_us(ef) - eo * US)
        ops.append((name, "cal", (lambda p, x, kw=kw: x.add(**kw)), model))
    return ops


def roots(pendulum, z, inst):
    """Implementation states for the model state (z, inst) by different routes."""
    base = obs.utc_dt(pendulum, inst).in_timezone(_tz(pendulum, z))
    out = {(obs.obs_key(base), base.fold): base}
    f = obs.fields(base)
    for fold in (0, 1):
        c = pendulum.DateTime.create(*f, tz=_tz(pendulum, z), fold=fold)
        if obs.instant_us(c) == inst and obs.fields(c) == f:
            out.setdefault((obs.obs_key(c), c.fold), c)
    return out


def explore(acc, pendulum, z0, inst0, zones, depth, check_kinds, prop_sub="chain"):
    ops = ops_for(zones)
    frontier = {(z0, inst0): roots(pendulum, z0, inst0)}
    seen = {(z0, inst0)}
    lo, hi = tzref.MIN_T * US, tzref.MAX_T * US
    for d in range(depth):
        nxt = {}
        for (z, inst), impls in frontier.items():
            acc.c["impl_states"] += len(impls)
            acc.c["model_states_expanded"] += 1
            for name, kind, apply, model in ops:
                m = model(z, inst)
                if m is None or not (lo < m[1] < hi):
                    continue
                ef, eo = obs.expected_render(m[0], m[1])
                for (_k, _fold), x in impls.items():
                    acc.c["evaluations"] += 1
                    acc.c["transitions"] += 1
                    try:
                        r = apply(pendulum, x)
                    except Exception as e:  # noqa: BLE001
                        if kind in check_kinds:
                            acc.mismatch(prop_sub, f"{kind}/raises-{type(e).__name__}",
                                         {"kind": "chain", "z": z0, "inst": inst0, "zones": zones, "at": [z, inst], "op": name, "depth": d + 1},
                                         type(e).__name__, {"fields": ef, "offset": eo})
                        continue
                    got = (obs.fields(r), obs.offset_s(r))
                    if got != (ef, eo) or r.timezone_name != obs_name(m[0]):
                        if kind in check_kinds:
                            acc.mismatch(prop_sub, f"{kind}/depth{d + 1}",
                                         {"kind": "chain", "z": z0, "inst": inst0, "zones": zones, "at": [z, inst], "op": name,
                                          "depth": d + 1, "receiver_fold": x.fold},
                                         {"fields": got[0], "offset": got[1], "tz": r.timezone_name},
                                         {"fields": ef, "offset": eo, "tz": obs_name(m[0])})
                        continue      # do not continue from a wrong state: it is not an implementation of m
                    nxt.setdefault(m, {}).setdefault((obs.obs_key(r), r.fold), r)
        seen.update(nxt)
        frontier = nxt
    acc.c["states"] += len(seen)
    return len(seen)


def obs_name(z):
    if isinstance(z, int):
        sign = "-" if z < 0 else "+"
        h, m = divmod(abs(int(z / 60)), 60)
        return f"{sign}{h:02d}:{m:02d}"
    return z


def replay(acc, pendulum, case, check_kinds, prop_sub="chain"):
    explore(acc, pendulum, case["z"], case["inst"], case["zones"], case.get("depth", 3), check_kinds, prop_sub)


def chain_seeds(seed, per_zone=3):
    out = []
    for z in seeds.witness_zones(seed, 2):
        if z == "UTC":
            continue
        trs = seeds.pick_transitions(seeds.zone_transitions(z), per_zone, seed)
        for t, ob, oa in trs:
            zones = [z, "UTC", "Europe/Paris" if z != "Europe/Paris" else "America/New_York"]
            for o in (ob, oa):
                if abs(o) < 86400 and o not in zones:
                    zones.append(o)
            g = abs(oa - ob)
            for inst in (t * US - 1, t * US + (g // 2) * US, t * US - 86400 * US + 1800 * US):
                out.append({"z": z, "inst": inst, "zones": zones})
    return out
