"""C10 - Duration arithmetic agrees with timedelta arithmetic.

Operands  : a microsecond-value alphabet (0, +-1, ties for half-even division, +-1 s/min/h/day, +-(1 d - 1 us),
            +-1e12 ...) realised as Duration and as native timedelta; numbers (ints and floats of either sign).
Operators : neg, abs, +, -, *, /, //, %, divmod, both operand orders, both operand types; ==, <, <=, >, >=, hash;
            years/months under neg and * int.
Oracle    : the same operator on the native timedelta twins (value in integer microseconds / numeric value) and
            the result types the property lists.
"""
from __future__ import annotations

import datetime as dt_
import operator

from .. import worker
from .. import core, obs

ID = "C10"
US = 1_000_000

VALUES = [0, 1, -1, 2, -2, 3, -3, 5, -5, 499999, 500000, 500001, -500000, 999999, -999999, US, -US, US + 1,
          1500000, -1500000, 2500000, -2500000, 59999999, 60 * US, -60 * US, 3600 * US, -3600 * US + 1,
          86400 * US - 1, -(86400 * US - 1), 86400 * US, -86400 * US, 86400 * US + 1, 7 * 86400 * US,
          -7 * 86400 * US - 1, 10 ** 12, -(10 ** 12), 10 ** 12 + 1, -(10 ** 12 + 1), 123456789012, 3, 7]
LONG = [30 * 86400 * US + 1, -(45 * 86400 * US), 366 * 86400 * US, 400 * 86400 * US + 5 * 3600 * US, -(732 * 86400 * US) - 1]
BIG = [(1 << 45) + 1, -(1 << 45) - 1, (1 << 52) + 1, -(1 << 52) - 3, (1 << 53) - 1]
NUMS = [1, -1, 2, -2, 3, -3, 4, -4, 7, -7, 10 ** 6, 0.5, -0.5, 1.5, -1.5, 2.5, 0.1, -0.1, 1e-6, 2.0, -2.0,
        -4.0, 0.25, 3.3, 1e6]


def mk_td(us):
    s, u = divmod(us, US)
    d, s = divmod(s, 86400)
    return dt_.timedelta(days=d, seconds=s, microseconds=u)


def mk_dur(pendulum, us):
    # built from an exact sign-magnitude decomposition (constructor arguments all of one sign)
    sg = -1 if us < 0 else 1
    a = abs(us)
    return pendulum.Duration(days=sg * (a // (86400 * US)), seconds=sg * (a // US % 86400),
                             microseconds=sg * (a % US))


def _val(pendulum, x):
    """Canonical value of an operator result."""
    if isinstance(x, dt_.timedelta):
        return ("td", obs.td_us(x))
    if isinstance(x, tuple):
        return tuple(_val(pendulum, e) for e in x)
    if isinstance(x, bool):
        return ("bool", x)
    if isinstance(x, int):
        return ("int", x)
    if isinstance(x, float):
        return ("float", x)
    return (type(x).__name__, repr(x))


def _run(fn):
    try:
        return "ok", fn()
    except ZeroDivisionError:
        return "ZeroDivisionError", None
    except OverflowError:
        return "OverflowError", None
    except Exception as e:  # noqa: BLE001
        return type(e).__name__, None


def _compare(acc, pendulum, sub, cls, case, impl_fn, ref_fn, want_type=None):
    si, ri = _run(impl_fn)
    sr, rr = _run(ref_fn)
    acc.c["evaluations"] += 1
    acc.c["transitions"] += 1
    if sr != "ok":
        # the native operation itself is undefined here (zero divisor, overflow): not in scope
        acc.c["skipped_native_undefined"] += 1
        return
    if si != "ok":
        acc.mismatch(sub, f"{cls}:raises", case, si, _val(pendulum, rr))
        return
    vi, vr = _val(pendulum, ri), _val(pendulum, rr)
    if vi != vr:
        acc.mismatch(sub, f"{cls}:value", case, vi, vr)
        return
    if want_type is not None:
        items = ri if isinstance(ri, tuple) else (ri,)
        wants = want_type if isinstance(want_type, tuple) else (want_type,)
        for it, w in zip(items, wants):
            if w == "Duration" and not isinstance(it, pendulum.Duration):
                acc.mismatch(sub, f"{cls}:type", case, type(it).__name__, "Duration")
            elif w == "number" and not (isinstance(it, (int, float)) and not isinstance(it, bool)):
                acc.mismatch(sub, f"{cls}:type", case, type(it).__name__, "int|float")


def _twins(pendulum, b):
    out = []
    D = 86400 * US
    try:
        if abs(b) >= 366 * D:
            sg = 1 if b > 0 else -1
            out.append(pendulum.Duration(years=sg, microseconds=b - sg * 365 * D))
        if abs(b) >= 30 * D:
            sg = 1 if b > 0 else -1
            out.append(pendulum.Duration(months=sg, microseconds=b - sg * 30 * D))
        if b > 0:
            from pendulum.duration import AbsoluteDuration
            out.append(AbsoluteDuration(microseconds=-b))
    except Exception:  # noqa: BLE001
        pass
    return [t for t in out if obs.td_us(t) == b]


_PARIS = []


def _paris(pendulum):
    if not _PARIS:
        _PARIS.append(pendulum.DateTime.create(2024, 3, 30, 12, 0, 0, 0, tz=pendulum.timezone("Europe/Paris")))
    return _PARIS[0]


def _intervals_of(pendulum, a):
    """Intervals (a Duration subclass: what b - a of two DateTimes returns) whose elapsed length is a: between UTC values and
    between values of a DST zone around its spring change."""
    out = []
    if not a or abs(a) >= 9000 * 365 * 86400 * US:
        return out
    ta = mk_td(a)
    for lbl, start in (("utc", pendulum.DateTime(2, 1, 1, tzinfo=pendulum.UTC) if a > 0 else pendulum.DateTime(9998, 1, 1, tzinfo=pendulum.UTC)),
                       ("paris", _paris(pendulum))):
        try:
            iv = (start + ta) - start
        except (OverflowError, ValueError):
            continue
        if obs.td_us(iv) == a:
            out.append((lbl, iv))
    return out


def check_pair(acc, pendulum, a, b):
    da, db = mk_dur(pendulum, a), mk_dur(pendulum, b)
    ta, tb = mk_td(a), mk_td(b)
    if obs.td_us(da) != a or obs.td_us(db) != b:
        acc.c["seed_not_canonical"] += 1   # C09's business
        return
    case = {"kind": "pair", "a": a, "b": b}
    # operands that COMPARE EQUAL to b but are built differently (years/months inside, an AbsoluteDuration) are used
    # first: whatever they leave behind (memoised conversions keyed by equality) must not leak into the operations
    # of the in-scope operands below.  Their own results are outside the statement and are not judged.
    for twin in _twins(pendulum, b):
        for op in (operator.floordiv, operator.truediv, operator.mod, divmod, operator.add, operator.sub):
            _run(lambda: op(da, twin))
    for oname, op in (("add", operator.add), ("sub", operator.sub)):
        for rname, right in (("Duration", db), ("timedelta", tb)):
            _compare(acc, pendulum, oname, f"D{oname[0]}{rname}", case, lambda: op(da, right),
                     lambda: op(ta, tb), "Duration")
        _compare(acc, pendulum, oname, "timedelta-left", case, lambda: op(ta, db), lambda: op(ta, tb),
                 "Duration" if oname == "add" else None)
    # right operands whose length is an absolute value: an AbsoluteDuration (what Time.diff() returns) and an absolute
    # Interval (what DateTime.diff() returns) of length |b|; unary minus does not change their sign
    if b:
        from pendulum.duration import AbsoluteDuration
        epoch = pendulum.DateTime(2, 1, 1, tzinfo=pendulum.UTC)
        tabs = mk_td(abs(b))
        rights = [("AbsoluteDuration", AbsoluteDuration(microseconds=b))]
        if abs(b) < 9990 * 365 * 86400 * US:          # an Interval cannot be longer than the supported range of years
            rights.append(("absolute-Interval", pendulum.Interval(epoch + tabs, epoch, absolute=True)))
        for rname, right in rights:
            if obs.td_us(right) != abs(b):
                acc.c["seed_not_canonical"] += 1
                continue
            for oname, op in (("add", operator.add), ("sub", operator.sub)):
                _compare(acc, pendulum, oname, f"D{oname[0]}{rname}", dict(case, right=rname), lambda: op(da, right),
                         lambda: op(ta, tabs), "Duration")
    for oname, op, wt in (("floordiv", operator.floordiv, "number"), ("truediv", operator.truediv, "number"),
                          ("mod", operator.mod, "Duration"), ("divmod", divmod, ("number", "Duration"))):
        for rname, right in (("Duration", db), ("timedelta", tb)):
            _compare(acc, pendulum, oname, f"D-{rname}", case, lambda: op(da, right), lambda: op(ta, tb), wt)
        _compare(acc, pendulum, oname, "timedelta-left", case, lambda: op(ta, db), lambda: op(ta, tb), None)
    # Intervals as right operands of the division family (an Interval's own length is the elapsed time, whatever its calendar
    # breakdown says): between UTC values and between values of a DST zone around its spring change
    if b and abs(b) < 9000 * 365 * 86400 * US:
        for lbl, start in (("utc", pendulum.DateTime(2, 1, 1, tzinfo=pendulum.UTC) if b > 0 else pendulum.DateTime(9998, 1, 1, tzinfo=pendulum.UTC)),
                           ("paris", _paris(pendulum))):
            try:
                iv = (start + tb) - start
            except (OverflowError, ValueError):
                continue
            if obs.td_us(iv) != b:
                acc.c["seed_not_canonical"] += 1
                continue
            for oname, op, wt in (("floordiv", operator.floordiv, "number"), ("truediv", operator.truediv, "number"),
                                  ("mod", operator.mod, "Duration"), ("divmod", divmod, ("number", "Duration"))):
                _compare(acc, pendulum, oname, f"D-Interval/{lbl}", dict(case, right="Interval/" + lbl), lambda: op(da, iv), lambda: op(ta, tb), wt)
    # an AbsoluteDuration (what Time.diff() returns; also of a week and more, as Time.diff() * 20 gives) as LEFT operand and
    # as divisor: its length is |a| / |b|
    from pendulum.duration import AbsoluteDuration as _AD
    try:
        ada, adb = _AD(microseconds=a), (_AD(microseconds=b) if b else None)
    except OverflowError:
        ada = adb = None
    if ada is not None and obs.td_us(ada) == abs(a):
        taa, tbb = mk_td(abs(a)), mk_td(abs(b))
        c2 = dict(case, left="AbsoluteDuration")

        def _nonneg(fn):
            # an AbsoluteDuration has no sign and the results of its arithmetic are AbsoluteDurations again: a native result
            # below zero is outside what the class can express (not judged)
            def g():
                r = fn()
                parts = r if isinstance(r, tuple) else (r,)
                if any(isinstance(x, dt_.timedelta) and x < dt_.timedelta(0) for x in parts):
                    raise ZeroDivisionError("out of scope")
                return r
            return g
        import datetime as dt_
        for oname, op, wt in (("add", operator.add, "Duration"), ("sub", operator.sub, "Duration"), ("floordiv", operator.floordiv, "number"),
                              ("truediv", operator.truediv, "number"), ("mod", operator.mod, "Duration"), ("divmod", divmod, ("number", "Duration"))):
            for rname, right in (("Duration", db), ("timedelta", tb)):
                _compare(acc, pendulum, oname, f"AbsoluteDuration-{op.__name__}-{rname}", c2, lambda: op(ada, right), _nonneg(lambda: op(taa, tb)), wt)
            if adb is not None and oname not in ("add", "sub"):
                _compare(acc, pendulum, oname, f"D-{op.__name__}-AbsoluteDuration", dict(case, right="AbsoluteDuration"), lambda: op(da, adb),
                         lambda: op(ta, tbb), wt)
    # an Interval as the LEFT operand of every binary operator (forward and inverted ones)
    for lbl, iv in _intervals_of(pendulum, a):
        c2 = dict(case, left="Interval/" + lbl)
        for oname, op, wt in (("add", operator.add, "Duration"), ("sub", operator.sub, "Duration"),
                              ("floordiv", operator.floordiv, "number"), ("truediv", operator.truediv, "number"),
                              ("mod", operator.mod, "Duration"), ("divmod", divmod, ("number", "Duration")),
                              ("compare", operator.eq, None), ("compare", operator.lt, None), ("compare", operator.ge, None)):
            for rname, right in (("Duration", db), ("timedelta", tb)):
                _compare(acc, pendulum, oname, f"Interval-{op.__name__}-{rname}/{lbl}", c2, lambda: op(iv, right), lambda: op(ta, tb), wt)
        _compare(acc, pendulum, "compare", f"eq-timedelta-Interval/{lbl}", c2, lambda: (tb == iv, iv == tb), lambda: (tb == ta, ta == tb))
    for oname, op in (("eq", operator.eq), ("ne", operator.ne), ("lt", operator.lt), ("le", operator.le),
                      ("gt", operator.gt), ("ge", operator.ge)):
        _compare(acc, pendulum, "compare", f"{oname}-DD", case, lambda: op(da, db), lambda: op(ta, tb))
        _compare(acc, pendulum, "compare", f"{oname}-Dt", case, lambda: op(da, tb), lambda: op(ta, tb))
        _compare(acc, pendulum, "compare", f"{oname}-tD", case, lambda: op(ta, db), lambda: op(ta, tb))


def check_unary_num(acc, pendulum, a, nums):
    d, t = mk_dur(pendulum, a), mk_td(a)
    if obs.td_us(d) != a:
        acc.c["seed_not_canonical"] += 1
        return
    case = {"kind": "un", "a": a}
    _compare(acc, pendulum, "neg", "value", case, lambda: -d, lambda: -t, "Duration")
    _compare(acc, pendulum, "abs", "value", case, lambda: abs(d), lambda: abs(t))
    for lbl, iv in _intervals_of(pendulum, a):
        _compare(acc, pendulum, "neg", f"Interval/{lbl}", dict(case, left="Interval/" + lbl), lambda: -iv, lambda: -t, "Duration")
        _compare(acc, pendulum, "abs", f"Interval/{lbl}", dict(case, left="Interval/" + lbl), lambda: abs(iv), lambda: abs(t))
        _compare(acc, pendulum, "hash", f"Interval/{lbl}", dict(case, left="Interval/" + lbl),
                 lambda: (iv == t, t == iv, hash(iv) == hash(t), {t: 1}.get(iv), iv in {d, t}), lambda: (True, True, True, 1, True))
    _compare(acc, pendulum, "hash", "value", case, lambda: hash(d) == hash(t), lambda: True)
    _compare(acc, pendulum, "eq-twin", "value", case, lambda: (d == t, t == d, d != t), lambda: (True, True, False))
    for n in nums:
        c2 = {"kind": "num", "a": a, "n": n}
        kind = "int" if isinstance(n, int) else "float"
        _compare(acc, pendulum, "mul", f"D*{kind}", c2, lambda: d * n, lambda: t * n, "Duration")
        _compare(acc, pendulum, "mul", f"{kind}*D", c2, lambda: n * d, lambda: n * t, "Duration")
        _compare(acc, pendulum, "truediv", f"D/{kind}", c2, lambda: d / n, lambda: t / n, "Duration")
        if isinstance(n, int):
            _compare(acc, pendulum, "floordiv", "D//int", c2, lambda: d // n, lambda: t // n, "Duration")
        from pendulum.duration import AbsoluteDuration as _AD
        try:
            ada = _AD(microseconds=a)
        except OverflowError:
            ada = None
        if ada is not None and obs.td_us(ada) == abs(a) and n >= 0:
            ta_ = abs(t)
            c4 = dict(c2, left="AbsoluteDuration")
            _compare(acc, pendulum, "mul", f"AbsoluteDuration*{kind}", c4, lambda: ada * n, lambda: ta_ * n, "Duration")
            _compare(acc, pendulum, "mul", f"{kind}*AbsoluteDuration", c4, lambda: n * ada, lambda: n * ta_, "Duration")
            _compare(acc, pendulum, "truediv", f"AbsoluteDuration/{kind}", c4, lambda: ada / n, lambda: ta_ / n, "Duration")
            if isinstance(n, int):
                _compare(acc, pendulum, "floordiv", "AbsoluteDuration//int", c4, lambda: ada // n, lambda: ta_ // n, "Duration")
        for lbl, iv in _intervals_of(pendulum, a):
            c3 = dict(c2, left="Interval/" + lbl)
            _compare(acc, pendulum, "mul", f"Interval*{kind}/{lbl}", c3, lambda: iv * n, lambda: t * n, "Duration")
            _compare(acc, pendulum, "mul", f"{kind}*Interval/{lbl}", c3, lambda: n * iv, lambda: n * t, "Duration")
            _compare(acc, pendulum, "truediv", f"Interval/{kind}/{lbl}", c3, lambda: iv / n, lambda: t / n, "Duration")
            if isinstance(n, int):
                _compare(acc, pendulum, "floordiv", f"Interval//int/{lbl}", c3, lambda: iv // n, lambda: t // n, "Duration")


def check_ym(acc, pendulum, y, mo, rest, n):
    d = pendulum.Duration(years=y, months=mo, microseconds=rest)
    case = {"kind": "ym", "y": y, "mo": mo, "rest": rest, "n": n}
    acc.c["evaluations"] += 2
    acc.c["transitions"] += 2
    nd = -d
    got = (nd.years, nd.months, obs.td_us(nd))
    want = (-y, -mo, -obs.td_us(d))
    if got != want:
        acc.mismatch("neg", "years-months", case, got, want)
    m = d * n
    got = (m.years, m.months, obs.td_us(m))
    want = (y * n, mo * n, obs.td_us(d) * n)
    if got != want:
        acc.mismatch("mul", "years-months", case, got, want)
    # the same operand object REUSED across the operator families (additive ones count a year as 365 days and a month as 30,
    # scaling acts on years and months component-wise): every answer is the one a fresh operand gives, in either order
    import datetime as dt_
    hour = dt_.timedelta(hours=1)
    total = obs.td_us(d)

    def fam_add(v):
        return [obs.td_us(v + hour), obs.td_us(hour + v), obs.td_us(v - hour), obs.td_us(hour - v), obs.td_us(v.as_timedelta())]

    def fam_mul(v):
        r = [v * 3, -2 * v] + ([v // 2, v / 2] if True else [])
        return [(x.years, x.months, obs.td_us(x)) for x in r]

    for order in ("add-then-scale", "scale-then-add"):
        v = pendulum.Duration(years=y, months=mo, microseconds=rest)
        try:
            res = (fam_add(v), fam_mul(v)) if order == "add-then-scale" else tuple(reversed((fam_mul(v), fam_add(v))))
            fresh = (fam_add(pendulum.Duration(years=y, months=mo, microseconds=rest)), fam_mul(pendulum.Duration(years=y, months=mo, microseconds=rest)))
        except Exception as e:  # noqa: BLE001
            acc.mismatch("reuse", f"years-months/{order}/raises-{type(e).__name__}", case, str(e)[:80], "values")
            continue
        acc.c["evaluations"] += 2
        wa = [total + 3600 * US, 3600 * US + total, total - 3600 * US, 3600 * US - total, total]
        if list(res[0]) != wa or list(res) != list(fresh):
            acc.mismatch("reuse", f"years-months/{order}", case, [res[0], res[1]], [wa, fresh[1]])


FLOAT_BUILT = [{"milliseconds": 1500}, {"seconds": 1, "milliseconds": 250}, {"hours": -1, "milliseconds": -7}, {"days": 2, "milliseconds": 86400001},
               {"seconds": 1 / 3}, {"seconds": 0.1234567}, {"microseconds": 0.25}, {"hours": 1, "microseconds": 0.375},
               {"minutes": 0.1}, {"days": 0.5, "microseconds": 0.6}, {"milliseconds": 0.0015}, {"seconds": -2 / 3},
               {"weeks": 0.1, "seconds": 0.0000004}, {"hours": -0.3333333}, {"seconds": 1.0000005}, {"microseconds": -0.5}]


def check_float_built(acc, pendulum, kw):
    """Operands built from fractional unit values: the constructor rounds to whole microseconds once (like timedelta);
    every later operation starts from that rounded length."""
    d, t = pendulum.Duration(**kw), dt_.timedelta(**kw)
    h, th = pendulum.duration(**kw), t
    case = {"kind": "fb", "kw": kw}
    _compare(acc, pendulum, "construct", "float-arguments", case, lambda: d, lambda: t, "Duration")
    for n in (1, 2, 3, 4, 8, 10, -3, 7, 1000, 0.5, 2.5):
        c2 = dict(case, n=n)
        for lbl, dd in (("class", d), ("helper", h)):
            _compare(acc, pendulum, "mul", f"float-built/{lbl}", c2, lambda: dd * n, lambda: t * n, "Duration")
            _compare(acc, pendulum, "mul", f"float-built/reflected/{lbl}", c2, lambda: n * dd, lambda: n * t, "Duration")
            _compare(acc, pendulum, "truediv", f"float-built/{lbl}", c2, lambda: dd / n, lambda: t / n, "Duration")
            if isinstance(n, int):
                _compare(acc, pendulum, "floordiv", f"float-built/{lbl}", c2, lambda: dd // n, lambda: t // n, "Duration")
    for other in (dt_.timedelta(microseconds=1), dt_.timedelta(seconds=1, microseconds=3)):
        _compare(acc, pendulum, "add", "float-built", case, lambda: d + other, lambda: t + other, "Duration")
        _compare(acc, pendulum, "sub", "float-built", case, lambda: d - other, lambda: t - other, "Duration")
        _compare(acc, pendulum, "mod", "float-built", case, lambda: d % other, lambda: t % other, "Duration")
    _compare(acc, pendulum, "neg", "float-built", case, lambda: -d, lambda: -t, "Duration")


def run_shard(shard):
    import pendulum
    acc = core.Acc(ID)
    vals = shard.get("values", [])
    if shard["kind"] == "pairs":
        for a in shard["left"]:
            for b in vals:
                with worker.guarded(acc, "arith", {"kind": "pair", "a": a, "b": b}):
                    check_pair(acc, pendulum, a, b)
                if b and a % b == 0:
                    acc.c["nontrivial"] += 1
            acc.c["states"] += 1
        acc.sample({"a_us": shard["left"][0], "b_us": vals[5], "ops": "+ - // / % divmod == < (both orders, both types)"})
    elif shard["kind"] == "nums":
        for a in shard["left"]:
            with worker.guarded(acc, "arith", {"kind": "un", "a": a}):
                check_unary_num(acc, pendulum, a, shard["nums"])
            acc.c["states"] += 1
            for n in shard["nums"]:
                # exact half-way cases of the rounded division / multiplication
                if isinstance(n, int) and n and (2 * a) % n == 0 and a % n:
                    acc.c["nontrivial"] += 1
        acc.sample({"a_us": shard["left"][0], "numbers": shard["nums"][:6]})
    elif shard["kind"] == "floatbuilt":
        for kw in FLOAT_BUILT:
            acc.c["states"] += 1
            acc.c["nontrivial"] += 1
            with worker.guarded(acc, "arith", {"kind": "fb", "kw": kw}):
                check_float_built(acc, pendulum, kw)
        acc.sample({"float_built_operands": FLOAT_BUILT[:4]})
    else:
        for y in (0, 1, -2):
            for mo in (0, 1, -11, 13):
                for rest in (0, 1, -1, 86400 * US + 1, -3600 * US):
                    for n in (1, -1, 2, -3, 0):
                        check_ym(acc, pendulum, y, mo, rest, n)
        acc.c["states"] += 60
    return acc.result()


def replay_case(case, acc):
    import pendulum
    k = case["kind"]
    if k == "fb":
        check_float_built(acc, pendulum, case["kw"])
    elif k == "pair":
        check_pair(acc, pendulum, case["a"], case["b"])
    elif k == "un":
        check_unary_num(acc, pendulum, case["a"], [])
    elif k == "num":
        check_unary_num(acc, pendulum, case["a"], [case["n"]])
    elif k == "ym":
        check_ym(acc, pendulum, case["y"], case["mo"], case["rest"], case["n"])


def plan(tier, seed):
    from ..seeds import chunks
    thorough = tier == "thorough"
    vals = sorted(set(VALUES + LONG + [((seed * 7919 + i * 104729) % (2 * 10 ** 9)) - 10 ** 9 for i in range(4)]))
    # magnitudes beyond the float-exact range of seconds (2^51..2^53 us and a multi-century length with a sub-second part)
    vals = sorted(set(vals + BIG + [(1 << 51) + 1, -(1 << 51) - 7, 200000 * 86400 * US + 1, -(150000 * 86400 * US) - 999999]))
    if thorough:
        vals = sorted(set(vals + [(1 << 56) + 12345, -(1 << 58) - 1, 999999998 * 86400 * US + 86399999999] + [v * 3 + 1 for v in VALUES] + [-(v * 5) - 2 for v in VALUES]))
    nums = list(NUMS) + ([5, -5, 6, 1 / 3, -2.5, 3.5, 0.75] if thorough else [])
    shards = [{"kind": "pairs", "left": ch, "values": vals} for ch in chunks(vals, 16)]
    shards += [{"kind": "nums", "left": ch, "values": vals, "nums": nums} for ch in chunks(vals, 8)]
    shards.append({"kind": "ym", "values": vals})
    shards.append({"kind": "floatbuilt"})
    return [({"ext": 1, "tz": "sys"}, shards)]


def evidence(m, tier, seed):
    c = m.c
    return {"coverage": {
        "evaluations": c["evaluations"], "states": c["states"], "transitions": c["transitions"],
        "traces_validated_against_impl": c["transitions"],
        "distinct_nontrivial": c["nontrivial"],
        "rule": "state = operand value in integer microseconds realised as Duration and as timedelta; every ordered "
                "pair of the value alphabet x {+,-,//,/,%,divmod,==,!=,<,<=,>,>=} x {Duration op Duration, Duration "
                "op timedelta, timedelta op Duration}; every value x number alphabet x {*, reflected *, /, //}; "
                "years/months under neg and * int; non-trivial = exact divisions and exact half-way (tie) cases",
        "exhaustive": True,
        "skipped_native_undefined": c["skipped_native_undefined"],
        "seed_not_canonical": c["seed_not_canonical"],
    }, "assumptions": ["native datetime.timedelta arithmetic is the oracle (named by the property)"]}
