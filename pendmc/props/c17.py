"""C17 - parse() is total: a supported value or a ValueError/ParserError, nothing else.

Language   : (a) EVERY string over the 26-symbol alphabet 0-9 : T Z W / P + - . , space Y M D H S up to length 4
             (thorough: 5, and 6 on the digit/separator sub-alphabet); (b) every valid template of C07/C13 with ALL
             single edits (substitution, insertion, deletion) over the alphabet + {e-acute, arabic-indic 3}
             (thorough: all double edits on 16 templates); (c) all truncations; (d) all a/b concatenations of
             template pairs; (e) long digit runs (>= 2^32) in every numeric slot.
Options    : default, exact, strict=False (+ day_first, + year_first=False), tz, exact+tz.
Back ends  : compiled parser, and the pure-Python parser swapped into the same parse() chain (same process), so
             the two results for one string are compared directly; plus a PENDULUM_EXTENSIONS=0 process.
Oracle     : outcome in {DateTime, Date, Time, Duration, Interval} or a ValueError subclass; any other exception
             class or a horizon expiry is a violation; whenever both parsers accept, same type, fields and offset.
"""
from __future__ import annotations

import datetime as dt_
import itertools

from .. import core, obs, seeds, worker

ID = "C17"
US = 1_000_000
SIGMA = "0123456789:TZW/P+-., YMDHS"
EXTRA = "é٣"
NOW = dt_.datetime(2016, 5, 4, 3, 2, 1)

TEMPLATES = [
    "2016-10-06", "20161006", "2016-280", "2016280", "2016-W40-4", "2016W404", "2016-W40", "2016W40", "2016-10", "2016",
    "2016-10-06T12:34:56", "2016-10-06 12:34:56", "20161006T123456", "2016-10-06T12:34:56.123456", "2016-10-06T12:34:56,5",
    "2016-10-06T12:34:56Z", "2016-10-06T12:34:56+01:00", "2016-10-06T12:34:56-0330", "2016-10-06T12:34:56+01",
    "20161006T123456.123Z", "20161006T123456+0100", "2016-10-06T12:34", "2016-10-06T12", "20161006T1234", "20161006T12",
    "2016-W40-4T12:34:56", "2016W404T123456", "2016-280T12:34:56", "2016280T123456", "12:34:56", "12:34", "T123456", "T12:34:56",
    "12:34:56.123456789", "12:34:56+01:00", "12:34:56Z", "123456", "1234", "12",
    "P1Y2M3DT4H5M6S", "P1Y", "P2M", "P3D", "PT4H", "PT5M", "PT6S", "P1W", "P1.5W", "P0.5D", "PT0.5H", "PT1.25M", "PT6.123456S",
    "P1Y2M3D", "PT4H5M6S", "P1DT1S", "P1Y2M3DT4H5M6.5S", "PT36H", "P12W",
    "2016-10-06T12:34:56Z/2017-01-01T00:00:00Z", "2016-10-06/2016-10-09", "2016-10-06T12:34:56Z/P1Y2M3DT4H5M6S",
    "P1Y2M3DT4H5M6S/2016-10-06T12:34:56Z", "20161006T123456Z/P1D", "P1W/2016-10-06", "2016-10-06/P1M", "12:34:56/13:00:00",
    "2016/10/06", "2016/10/06 12:34:56", "2016:10:06", "2016-10-06 1:02:03", "2016-10-06 12:34:56.123456789", "1:02", "1:02:03",
    "2016-10-06 12:", "12:", "1:", "2016-1-6", "16-10-06", "06/10/2016", "10-06-2016", "2016.10.06",
]
DOUBLE = TEMPLATES[0:1] + TEMPLATES[10:13] + TEMPLATES[16:18] + ["12:34:56", "T123456", "P1Y2M3DT4H5M6S", "PT6.5S", "P1.5W",
                                                              "2016-10-06/P1M", "2016/10/06 12:34", "2016-W40-4", "2016-280",
                                                              "12:"]
OPTION_SETS = [{}, {"exact": True}, {"strict": False}, {"tz": "Europe/Paris"}, {"tz": "Europe/Pari"}, {"strict": False, "day_first": True},
               {"strict": False, "year_first": False}, {"exact": True, "tz": "Europe/Paris"}, {"tz": None}]
OK_TYPES = ("DateTime", "Date", "Time", "Duration", "Interval")


def _setup():
    import pendulum
    import pendulum.parsing as pp
    from pendulum.parsing import iso8601 as pyp
    from ..worker import CTX
    swap = None
    if CTX["config"].get("ext", 1):
        swap = (pp, pp.parse_iso8601, pyp.parse_iso8601)
    return pendulum, swap


def observe(pendulum, x):
    t = type(x).__name__
    if isinstance(x, pendulum.Interval):
        return ("Interval", observe(pendulum, x.start), observe(pendulum, x.end))
    if isinstance(x, pendulum.DateTime):
        return ("DateTime", obs.fields(x), obs.offset_s(x))
    if isinstance(x, pendulum.Date):
        return ("Date", (x.year, x.month, x.day))
    if isinstance(x, pendulum.Time):
        o = x.utcoffset()
        return ("Time", (x.hour, x.minute, x.second, x.microsecond), None if o is None else int(o.total_seconds()))
    if isinstance(x, pendulum.Duration):
        return ("Duration", x.years, x.months, obs.td_us(x))
    return (t, repr(x)[:60])


def run_parse(pendulum, s, opts):
    try:
        r = pendulum.parse(s, now=NOW, **opts)
    except ValueError:
        return ("ValueError",)
    except BaseException as e:  # noqa: BLE001  (a Rust panic is a BaseException: an escaping exception all the same)
        if worker.is_control(e):
            raise
        import traceback
        tb = traceback.extract_tb(e.__traceback__)
        where = f"{tb[-1].filename.split('/')[-1]}:{tb[-1].name}" if tb else "?"
        return ("EXC", type(e).__name__, where)
    try:
        return observe(pendulum, r)
    except BaseException as e:  # noqa: BLE001
        if worker.is_control(e):
            raise
        # parse() returned an object whose own accessors raise (e.g. a UTC offset of 24 hours): not a supported value
        return ("EXC", "unusable-value/" + type(e).__name__, type(r).__name__)


def iso_accepts(swap, s):
    """Per parser: does the ISO stage itself (parse_iso8601, or the interval stage built on it) accept s?
    Only then is a result 'the back end accepting the string'; otherwise it comes from the shared
    common-format / dateutil fallbacks fed by the OTHER parser's rejection."""
    out = {}
    pp = swap[0]
    for name, fn in (("compiled", swap[1]), ("python-parser", swap[2])):
        pp.parse_iso8601 = fn
        try:
            ok = False
            try:
                fn(s)
                ok = True
            except ValueError:
                if "/" in s:
                    try:
                        pp._parse_iso8601_interval(s)
                        ok = True
                    except Exception:  # noqa: BLE001
                        ok = False
            except Exception:  # noqa: BLE001
                ok = False
            out[name] = ok
        finally:
            pp.parse_iso8601 = swap[1]
    return out


def check_string(acc, pendulum, swap, s, option_sets, sigcls):
    iso = None
    for opts in option_sets:
        res = {}
        backends = [("compiled" if swap else "python", None)]
        if swap:
            backends.append(("python-parser", swap))
        for bname, sw in backends:
            if sw:
                sw[0].parse_iso8601 = sw[2]
            try:
                r = run_parse(pendulum, s, opts)
            finally:
                if sw:
                    sw[0].parse_iso8601 = sw[1]
            acc.c["evaluations"] += 1
            res[bname] = r
            if r[0] == "EXC":
                acc.mismatch("totality", f"{r[1]}@{r[2]}", {"kind": "s", "s": s, "opts": opts, "backend": bname},
                             list(r), "a supported value or ValueError")
            elif r[0] not in OK_TYPES and r[0] != "ValueError":
                acc.mismatch("totality", f"type-{r[0]}", {"kind": "s", "s": s, "opts": opts, "backend": bname},
                             list(r), "a supported value or ValueError")
            acc.outcomes[r[0] if r[0] != "EXC" else r[1]] += 1
        if len(res) == 2:
            a, b = res["compiled"], res["python-parser"]
            acc.c["transitions"] += 1
            if a[0] in OK_TYPES and b[0] in OK_TYPES and a != b:
                if iso is None:
                    iso = iso_accepts(swap, s)
                if not (iso["compiled"] and iso["python-parser"]):
                    acc.c["fallback_divergence_not_compared"] += 1
                    continue
                kf = "C17-rs-fraction-whole-seconds" if kf_duration_fraction(s, a, b) else None
                acc.mismatch("backends-agree", f"{sigcls}/{a[0]}-vs-{b[0]}", {"kind": "s", "s": s, "opts": opts, "backend": "both"},
                             {"compiled": a, "python": b}, "same value", kf=kf)
            if a[0] in OK_TYPES:
                acc.c["accepted"] += 1


def kf_duration_fraction(s, a, b):
    """C17-rs-fraction-whole-seconds (= C13-rs-fraction-whole-seconds seen through the differential): both parsers
    accept a duration with a decimal fraction on W, D or H; the compiled one rounds the remainder to whole seconds."""
    import re
    if a[0] != "Duration" or b[0] != "Duration" or a[1:3] != b[1:3]:
        return False
    body = s.split("/")[0] if s.startswith("P") else s.split("/")[-1]
    m = re.search(r"\d+[.,]\d+([WDH])", body)
    return bool(m) and abs(a[3] - b[3]) < 60 * US


def boundary_strings(years):
    """Date strings at the edge of their component ranges, with what the calendar says they denote
    ((y, m, d) or None = no such date): week 0/1/52/53/54 x weekday 0/1/7/8, ordinal day 0/1/59/60/365/366/367,
    days 28..32 of every month - for every year type."""
    import datetime as dt_
    out = []
    for y in years:
        for w in (0, 1, 52, 53, 54):
            for d in (None, 0, 1, 4, 7, 8):
                try:
                    v = dt_.date.fromisocalendar(y, w, d if d is not None else 1)
                    want = (v.year, v.month, v.day)
                except ValueError:
                    want = None
                if d is None:
                    out += [(f"{y:04d}-W{w:02d}", want), (f"{y:04d}W{w:02d}", want)]
                else:
                    out += [(f"{y:04d}-W{w:02d}-{d}", want), (f"{y:04d}W{w:02d}{d}", want)]
        leap = y % 4 == 0 and (y % 100 != 0 or y % 400 == 0)
        for n in (0, 1, 59, 60, 61, 365, 366, 367):
            want = None
            if 1 <= n <= (366 if leap else 365):
                v = dt_.date(y, 1, 1) + dt_.timedelta(days=n - 1)
                want = (v.year, v.month, v.day)
            out += [(f"{y:04d}-{n:03d}", want), (f"{y:04d}{n:03d}", want)]
        for m in range(1, 13):
            for d in (0, 28, 29, 30, 31, 32):
                try:
                    dt_.date(y, m, d)
                    want = (y, m, d)
                except ValueError:
                    want = None
                out += [(f"{y:04d}-{m:02d}-{d:02d}", want), (f"{y:04d}{m:02d}{d:02d}", want)]
                if want is None and m in (2, 4, 12):
                    # a date that does not exist stays impossible when the end-of-day notation 24:00 follows it
                    out += [(f"{y:04d}-{m:02d}-{d:02d}T24:00:00", None), (f"{y:04d}-{m:02d}-{d:02d}T24:00", None),
                            (f"{y:04d}{m:02d}{d:02d}T24", None), (f"{y:04d}-{m:02d}-{d:02d}T24:00:00Z", None),
                            (f"{y:04d}-{m:02d}-{d:02d}T24:00:00+02:00", None), (f"{y:04d}{m:02d}{d:02d}T240000", None)]
        for m, d in ((0, 15), (13, 5), (14, 1), (19, 31), (99, 99), (0, 0)):
            out += [(f"{y:04d}-{m:02d}-{d:02d}", None), (f"{y:04d}-{m:02d}-{d:02d}T24:00:00", None), (f"{y:04d}-{m:02d}-{d:02d}T24:00:00+02:00", None),
                    (f"{y:04d}{m:02d}{d:02d}T24", None), (f"{y:04d}-{m:02d}-{d:02d}T00:00:00", None)]
    return out


def check_boundary(acc, pendulum, swap, s, want):
    """A boundary string denotes the calendar's date or nothing: never a date computed from a wrapped component."""
    backends = [("compiled" if swap else "python", None)]
    if swap:
        backends.append(("python-parser", swap))
    for opts in ({}, {"exact": True}):
        for bname, sw in backends:
            if sw:
                sw[0].parse_iso8601 = sw[2]
            try:
                r = run_parse(pendulum, s, opts)
            finally:
                if sw:
                    sw[0].parse_iso8601 = sw[1]
            acc.c["evaluations"] += 1
            acc.c["transitions"] += 1
            case = {"kind": "b", "s": s, "want": want, "opts": opts, "backend": bname}
            if r[0] == "EXC":
                acc.mismatch("totality", f"{r[1]}@{r[2]}", case, list(r), "a supported value or ValueError")
                continue
            if r[0] == "ValueError":
                got = None
            elif r[0] == "Date":
                got = tuple(r[1])
            elif r[0] == "DateTime":
                got = tuple(r[1][:3]) if tuple(r[1][3:]) == (0, 0, 0, 0) else ("time", r[1])
            else:
                got = (r[0],)
            if got != (None if want is None else tuple(want)):
                shape = "week" if "W" in s else "ordinal" if len(s.replace("-", "")) == 7 else "calendar"
                acc.mismatch("boundary", f"{shape}/{'accepted-impossible' if want is None else 'wrong-or-rejected'}", case,
                             list(r), "ValueError" if want is None else ["Date", list(want)])
            acc.outcomes[r[0]] += 1


def edits1(t, alphabet):
    out = set()
    for i in range(len(t) + 1):
        for ch in alphabet:
            out.add(t[:i] + ch + t[i:])
    for i in range(len(t)):
        out.add(t[:i] + t[i + 1:])
        for ch in alphabet:
            if ch != t[i]:
                out.add(t[:i] + ch + t[i + 1:])
    out.discard(t)
    return sorted(out)


def check_rfc2822(acc, pendulum, off_min):
    """strict=False hands RFC 2822 dates to the fallback parser: the value must carry the offset as written (no number
    wrapped modulo a day)."""
    sg = "-" if off_min < 0 else "+"
    text = "Tue, 04 Aug 2015 23:20:07 %s%02d%02d" % (sg, abs(off_min) // 60, abs(off_min) % 60)
    want = ["DateTime", [2015, 8, 4, 23, 20, 7, 0], off_min * 60]
    for opts in ({"strict": False}, {"strict": False, "tz": "Europe/Paris"}):
        acc.c["evaluations"] += 1
        try:
            r = pendulum.parse(text, **opts)
            got = [type(r).__name__, list(obs.fields(r)), obs.offset_s(r)]
        except ValueError:
            got = ["ValueError"]
        except Exception as e:  # noqa: BLE001
            got = ["EXC", type(e).__name__]
        if got != want and got != ["ValueError"]:
            acc.mismatch("non-strict", "rfc2822-offset-value", {"kind": "rfc", "off": off_min, "s": text, "opts": opts}, got, want)


def check_tz_number(acc, pendulum, off_min):
    """tz= given as a NUMBER of hours (int, or float for the other whole-minute offsets): the value carries exactly that
    offset - nothing truncated or wrapped - or the call raises ValueError."""
    h = off_min // 60 if off_min % 60 == 0 and (off_min // 60) % 2 else off_min / 60
    want = ["DateTime", [2016, 10, 6, 12, 34, 56, 0], off_min * 60]
    for text in ("2016-10-06T12:34:56", "2016-10-06 12:34:56"):
        acc.c["evaluations"] += 1
        try:
            r = pendulum.parse(text, tz=h)
            got = [type(r).__name__, list(obs.fields(r)), obs.offset_s(r)]
        except ValueError:
            got = ["ValueError"]
        except Exception as e:  # noqa: BLE001
            got = ["EXC", type(e).__name__]
        if got != want:
            acc.mismatch("tz-option", "numeric-hours-value", {"kind": "tznum", "off": off_min, "s": text}, got, want)
    acc.c["evaluations"] += 1
    try:
        iv = pendulum.parse("2016-10-06T12:34:56/PT1H", tz=h)
        got = [type(iv).__name__, obs.offset_s(iv.start), obs.offset_s(iv.end), obs.td_us(iv)]
    except ValueError:
        got = ["ValueError"]
    except Exception as e:  # noqa: BLE001
        got = ["EXC", type(e).__name__]
    if got != ["Interval", off_min * 60, off_min * 60, 3600 * 10 ** 6]:
        acc.mismatch("tz-option", "numeric-hours-interval", {"kind": "tznum", "off": off_min, "s": "2016-10-06T12:34:56/PT1H"}, got,
                     ["Interval", off_min * 60, off_min * 60, 3600 * 10 ** 6])


def check_tz_gap(acc, pendulum, z, f):
    from ..ref import tzref
    kind, inst = tzref.normalize(tzref.zone(z), tuple(f), 1)
    if kind != "skipped" or inst is None:
        return
    ef, eo = obs.expected_render(z, inst)
    want = ["DateTime", list(ef), eo]
    for text in ("%04d-%02d-%02dT%02d:%02d:%02d" % tuple(f[:6]), "%04d%02d%02dT%02d%02d%02d" % tuple(f[:6]),
                 "%04d-%02d-%02d %02d:%02d:%02d" % tuple(f[:6])):
        acc.c["evaluations"] += 1
        try:
            r = pendulum.parse(text, tz=z)
            got = [type(r).__name__, list(obs.fields(r)), obs.offset_s(r)]
        except Exception as e:  # noqa: BLE001
            got = ["EXC", type(e).__name__]
        if got != want:
            acc.mismatch("tz-option", "skipped-wall-time-value", {"kind": "tzgap", "z": z, "f": list(f), "s": text}, got, want)


def run_shard(shard):
    import warnings
    warnings.simplefilter("ignore")
    pendulum, swap = _setup()
    acc = core.Acc(ID)
    k = shard["kind"]
    n = 0

    def batch(strings, option_sets, cls):
        nonlocal n
        for s in strings:
            n += 1
            if n % 500 == 0:
                worker.horizon(30.0)     # generous per-500-strings horizon; expiry = non-termination
            try:
                check_string(acc, pendulum, swap, s, option_sets, cls)
            except worker.Hang:
                acc.mismatch("totality", "HANG", {"kind": "s", "s": s, "opts": {}, "backend": "?"}, "HANG", "terminates")
                worker.horizon(30.0)

    worker.horizon(30.0)
    try:
        if k == "all":
            alpha = shard["alphabet"]
            L = shard["length"]
            for prefix in shard["prefixes"]:
                rest = L - len(prefix)
                gen = (prefix + "".join(t) for t in itertools.product(alpha, repeat=rest))
                batch(gen, shard["options"], f"len{L}")
            acc.sample({"all_strings": {"length": L, "prefixes": shard["prefixes"][:3], "alphabet": alpha}})
        elif k == "edits":
            for t in shard["templates"]:
                batch([t] + edits1(t, SIGMA + EXTRA), shard["options"], "edit1")
                acc.c["nontrivial"] += 1
            acc.sample({"template": shard["templates"][0], "edits": "all single substitutions/insertions/deletions"})
        elif k == "edits2":
            t = shard["template"]
            e1 = edits1(t, shard["alphabet"])
            for s1 in e1[shard["i0"]::shard["stride"]]:
                batch(edits1(s1, shard["alphabet"]), [{}], "edit2")
            acc.sample({"template": t, "edits": "double"})
        elif k == "trunc":
            for t in TEMPLATES:
                batch([t[:i] for i in range(len(t))] + [t[i:] for i in range(1, len(t))], OPTION_SETS, "trunc")
            acc.sample({"truncations_of": TEMPLATES[10]})
        elif k == "concat":
            for a in shard["left"]:
                batch([a + "/" + b for b in TEMPLATES] + [a + " " + b for b in TEMPLATES[:40]], [{}, {"exact": True}], "concat")
            acc.sample({"concat": shard["left"][0] + "/" + TEMPLATES[3]})
        elif k == "bignum":
            digs = ["4294967296", "4294967295", "2147483648", "99999999999", "18446744073709551616", "00000000001",
                    "9" * 25, "429496729600"]
            strs = []
            for d in digs:
                strs += [f"P{d}Y", f"P{d}M", f"P{d}W", f"P{d}D", f"PT{d}H", f"PT{d}M", f"PT{d}S", f"PT1.{d}S", f"P1.{d}D",
                         f"P{d}Y{d}M{d}DT{d}H{d}M{d}S", f"{d}-10-06", f"2016-{d}-06", f"2016-10-{d}", f"2016-10-06T{d}:00:00",
                         f"2016-10-06T12:34:56.{d}", f"2016-10-06T12:34:56+{d}:00", f"2016-10-06T12:34:56+01:{d}", f"2016-W{d}-1",
                         f"2016-{d}", f"{d}", f"{d}:{d}", f"{d}:{d}:{d}", f"2016/10/06 {d}:{d}", f"2016-10-06T12:34:56Z/P{d}D",
                         f"P{d}D/2016-10-06T12:34:56Z", f"2016-10-06 {d}", f"{d}/{d}/{d}", f"{d} {d} {d}"]
            batch(strs, OPTION_SETS, "bignum")
            acc.c["nontrivial"] += len(strs)
            acc.sample({"bignum": strs[:4]})
        elif k == "boundaries":
            for st, want in boundary_strings(shard["years"]):
                n += 1
                check_boundary(acc, pendulum, swap, st, want)
            acc.c["nontrivial"] += len(shard["years"])
            acc.sample({"boundary_years": shard["years"][:4], "example": f"{shard['years'][0]:04d}-W53-1"})
        elif k == "nonstrict":
            texts = ["Oct 6 2016", "6 October 2016", "October 6, 2016 12:34", "10/06/2016", "06.10.2016", "Thu, 06 Oct 2016 12:34:56 +0000",
                     "tomorrow", "2016-10-06 12pm", "12pm", "noon", "", " ", "-", "T", "P", "PT", "Z", "+", "W", "/", "//", "P/P", "T/T",
                     "2016-10-06T12:34:56 Europe/Paris", "1e5", "١٢٣٤", "2016-10-06\n", "\x00", "9999-12-31T23:59:59.999999+00:00",
                     "0000-01-01", "0001-01-01", "10000-01-01", "99999999", "2016-02-30 12:00", "2016-13-01 00:00"]
            batch(texts, OPTION_SETS, "misc")
            # strict gate: free text is rejected by default and only by default
            for s in texts[:9]:
                r1 = run_parse(pendulum, s, {})
                if r1[0] in OK_TYPES:
                    acc.mismatch("strict-gate", "accepted-free-text", {"kind": "s", "s": s, "opts": {}, "backend": "compiled"},
                                 list(r1), "ValueError with strict=True")
            # characters that are not the '.' / ',' fraction separators, not the 'T' / space date-time separators
            for s in ("12:30:45|5", "2016-10-06 12:30:45|123", "2016-10-06T12:30:45|123", "12:30:45;5", "12:30:45:5", "2016-10-06_12:30:45", "2016-10-06 12:30:45 5",
                      "2016-10-06\n", "2016-10-06T12:30:45\n", "P1D\n", "2016-10-06 12:30:45\n", "\n2016-10-06", "2016-10-06/P1D\n"):
                for opts in ({}, {"exact": True}, {"tz": "Europe/Paris"}):
                    r1 = run_parse(pendulum, s, opts)
                    acc.c["evaluations"] += 1
                    if r1[0] != "ValueError":
                        acc.mismatch("strict-gate", "accepted-malformed-separator", {"kind": "s", "s": s, "opts": opts, "backend": "compiled" if swap else "python"},
                                     list(r1), "ValueError with strict=True")
            acc.sample({"free_text": texts[:4]})
            # strings without an offset read in a zone (tz option) where that wall time was skipped - including the
            # zones that skipped a whole calendar day: the value is the documented normalisation (moved forward by the
            # length of the gap), not one computed from a truncated or wrapped gap length
            for off in range(-1439, 1440):
                check_rfc2822(acc, pendulum, off)
                check_tz_number(acc, pendulum, off)
            for z in ("Pacific/Apia", "Pacific/Kiritimati", "Pacific/Kwajalein", "Europe/Paris", "Australia/Lord_Howe", "America/Sao_Paulo"):
                gaps = [tr for tr in seeds.zone_transitions(z) if tr[2] > tr[1] and -2000000000 < tr[0] < 2000000000]
                big = [tr for tr in gaps if tr[2] - tr[1] >= 86400]
                for t, ob, oa in (big + gaps[-2:])[:4]:
                    for w in (t + ob, t + ob + (oa - ob) // 2, t + oa - 1):
                        check_tz_gap(acc, pendulum, z, seeds.fields_of_wall(w * 1_000_000))
            # the tz option itself: names that are not zones in every way the tz database layout allows (a directory, an
            # empty / non-normalised / escaping key, a file that is not TZif, wrong case), 'local' and 'UTC'
            tzs = ["Europe", "America/Argentina", "Etc", "", "Europe/", "../UTC", "/UTC", "zone.tab", "tzdata.zi", "posixrules",
                   "europe/paris", "Europe/Paris ", "local", "UTC", "GMT+0", "+02:00", "\x00"]
            batch(TEMPLATES[:24] + ["2016-10-06 12:34:56", "12:34:56", "P1D", "2016-10-06/P1D", "junk"],
                  [{"tz": z} for z in tzs] + [{"tz": z, "exact": True} for z in tzs[:6]], "tz-names")
    finally:
        worker.horizon(worker.SHARD_WATCHDOG)
    acc.c["states"] += n
    return acc.result()


def replay_case(case, acc):
    import warnings
    warnings.simplefilter("ignore")
    pendulum, swap = _setup()
    if case.get("kind") == "rfc":
        check_rfc2822(acc, pendulum, case["off"])
        return
    if case.get("kind") == "tznum":
        check_tz_number(acc, pendulum, case["off"])
        return
    if case.get("kind") == "tzgap":
        check_tz_gap(acc, pendulum, case["z"], tuple(case["f"]))
        return
    s, opts = case["s"], case.get("opts", {})
    worker.horizon(10.0)
    if case.get("kind") == "b":
        try:
            check_boundary(acc, pendulum, swap, s, case["want"])
        finally:
            worker.horizon_off()
        return
    try:
        for cls in ("len1", "len2", "len3", "len4", "len5", "len6", "edit1", "edit2", "trunc", "concat", "bignum", "misc", "tz-names"):
            check_string(acc, pendulum, swap, s, [opts], cls)
    except worker.Hang:
        acc.mismatch("totality", "HANG", case, "HANG", "terminates")
    finally:
        worker.horizon_off()
    if case.get("backend") == "compiled" and not opts:
        r1 = run_parse(pendulum, s, {})
        if r1[0] in OK_TYPES:
            acc.mismatch("strict-gate", "accepted-free-text", case, list(r1), "ValueError with strict=True")


def plan(tier, seed):
    thorough = tier == "thorough"
    shards = []
    base_opts = [{}, {"exact": True}, {"strict": False}]
    for L in (0, 1, 2, 3):
        pref = [""] if L < 3 else list(SIGMA)
        shards.append({"kind": "all", "alphabet": SIGMA, "length": L, "prefixes": pref if L < 3 else pref[:13],
                       "options": OPTION_SETS})
        if L == 3:
            shards.append({"kind": "all", "alphabet": SIGMA, "length": L, "prefixes": pref[13:], "options": OPTION_SETS})
    for ch in seeds.chunks([a + b for a in SIGMA for b in SIGMA], 64):
        shards.append({"kind": "all", "alphabet": SIGMA, "length": 4, "prefixes": ch, "options": base_opts})
    if thorough:
        for ch in seeds.chunks([a + b + c for a in SIGMA for b in SIGMA for c in SIGMA], 512):
            shards.append({"kind": "all", "alphabet": SIGMA, "length": 5, "prefixes": ch, "options": [{}]})
        sub = "0123456789:T-+.P"
        for ch in seeds.chunks([a + b for a in sub for b in sub], 64):
            shards.append({"kind": "all", "alphabet": sub, "length": 6, "prefixes": ch, "options": [{}]})
    for ch in seeds.chunks(TEMPLATES, 48):
        shards.append({"kind": "edits", "templates": ch, "options": OPTION_SETS})
    if thorough:
        for t in DOUBLE:
            for i0 in range(8):
                shards.append({"kind": "edits2", "template": t, "alphabet": SIGMA, "i0": i0, "stride": 8})
    else:
        t = DOUBLE[seed % len(DOUBLE)]
        for i0 in range(8):
            shards.append({"kind": "edits2", "template": t, "alphabet": "0123456789:T-+.P/ ZW", "i0": i0, "stride": 8})
    shards.append({"kind": "trunc"})
    for ch in seeds.chunks(TEMPLATES, 12):
        shards.append({"kind": "concat", "left": ch})
    shards.append({"kind": "bignum"})
    shards.append({"kind": "nonstrict"})
    # every year type (leap x weekday of 1 January: the 28-year cycle) + century years + range ends
    byears = list(range(1996, 2024)) + [1900, 2000, 2100, 1, 4, 9999, 1000 + seed % 800]
    for ch in seeds.chunks(byears, 7):
        shards.append({"kind": "boundaries", "years": ch})
    plans = [({"ext": 1, "tz": "sys"}, shards)]
    light = [s for s in shards if s["kind"] in ("edits", "trunc", "bignum", "nonstrict", "boundaries") or (s["kind"] == "all" and s["length"] <= 3)]
    plans.append(({"ext": 0, "tz": "sys"}, light))
    return plans


def evidence(m, tier, seed):
    c = m.c
    return {"coverage": {
        "evaluations": c["evaluations"], "states": c["states"], "transitions": c["transitions"],
        "traces_validated_against_impl": c["transitions"],
        "distinct_nontrivial": c["accepted"],
        "rule": "state = input string; EVERY string of length <= 4 over the 26-symbol alphabet (length <= 3 under all 7 "
                "option sets, length 4 under default, exact and strict=False; thorough adds length 5 and length 6 over a 16-symbol "
                "sub-alphabet); all single edits over alphabet+2 non-ASCII of 85 templates x 7 option sets; double edits "
                "of one seed-rotated template (thorough: 16 templates); all truncations; all a/b concatenations; long "
                "digit runs in every numeric slot; free text; each string through the compiled parser and the "
                "pure-Python parser swapped into the same parse() chain; transitions = pairs of results compared; "
                "non-trivial = strings accepted by the compiled back end (the rest exercise the rejection paths)",
        "exhaustive": True,
        "accepted_strings": c["accepted"],
        "fallback_divergence_not_compared": c["fallback_divergence_not_compared"],
    }, "assumptions": ["the clause 'with strict=True text outside the ISO/RFC/common forms is rejected' is checked on a "
                       "list of free-text dates only: a sound recogniser of 'the common forms' is not defined by the "
                       "property"]}
