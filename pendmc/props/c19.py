"""C19 - Interval.range() steps from the start without drift and stays inside.

Seeds      : starts on days 29-31 and around DST transitions in the witness zones, UTC, naive, fixed offset and
             Dates; ends = start +- spans chosen per unit (zero, less than one step, exact multiples, multiples
             plus a remainder); forward / inverted / absolute; 8 units x steps 1..12; direct iteration.
Oracle     : the sequence [start +- k*n units] computed independently by the integer model of C04 (wall-clock
             units, clamp, C02 normalisation) or of C03 (elapsed units); strictly monotone; stops at the last
             value not beyond the end; end yielded iff reachable; every element between the endpoints;
             finite (horizon); `x in interval` == `start <= x <= end`.
"""
from __future__ import annotations

from .. import core, obs, seeds, worker
from ..ref import calref, tzref
from . import c04

ID = "C19"
US = 1_000_000
UNITS = ("years", "months", "weeks", "days", "hours", "minutes", "seconds", "microseconds")
FIXED_US = {"hours": 3600 * US, "minutes": 60 * US, "seconds": US, "microseconds": 1}
SPANS = {
    "years": ({"years": 4}, {"years": 4, "days": 1}, {"years": 1, "microseconds": -1}, {}, {"years": 12, "months": 1}),
    "months": ({"months": 13, "days": 3}, {"months": 1}, {"months": 5}, {"days": 45}, {"months": 24}),
    "weeks": ({"days": 45}, {"weeks": 10}, {"days": 6}, {"weeks": 24, "microseconds": 1}),
    "days": ({"days": 45}, {"days": 1}, {"hours": 5}, {"days": 31, "microseconds": 1}, {"days": 24}),
    "hours": ({"hours": 5}, {"hours": 49}, {"days": 1}, {"hours": 24, "microseconds": -1}, {"minutes": 70}),
    "minutes": ({"hours": 5}, {"minutes": 61}, {"minutes": 60}, {"seconds": 59}, {"minutes": 40}),
    "seconds": ({"seconds": 125}, {"seconds": 60}, {"minutes": 61, "microseconds": 1}, {"microseconds": 999999}),
    "microseconds": ({"microseconds": 1}, {"microseconds": 25}, {}, {"microseconds": 24}),
}
MAXN = 10000
_TZ = {}


def _tz(pendulum, z):
    t = _TZ.get(z)
    if t is None:
        t = _TZ[z] = pendulum.timezone(z)
    return t


def _mk(pendulum, z, f, converted=False):
    if z == "date":
        return pendulum.Date(*f[:3])
    if z is None:
        return pendulum.DateTime(*f)
    x = pendulum.DateTime.create(*f, tz=_tz(pendulum, z))
    if converted:
        # same value obtained by conversion from UTC (carries the fold the conversion produced, usually 0)
        y = x.in_timezone("UTC").in_timezone(_tz(pendulum, z))
        if (obs.fields(y), obs.offset_s(y)) == (obs.fields(x), obs.offset_s(x)):
            return y
    return x


def _ref_step(z, f, unit, amount):
    """Reference: (fields, offset, instant) of start shifted by `amount` units (signed)."""
    if z == "date":
        r = c04.add_wall(tuple(f[:3]) + (0, 0, 0, 0), {unit: amount})
        return None if r is None else (r[:3], None, obs.wall_us(r))
    if unit in FIXED_US and z is not None:
        zz = tzref.zone(z)
        kind, inst0 = tzref.normalize(zz, f, 1)
        inst = inst0 + amount * FIXED_US[unit]
        if not (tzref.MIN_T * US < inst < tzref.MAX_T * US):
            return None
        ef, eo = obs.expected_render(z, inst)
        return ef, eo, inst
    e = c04.expected(z, f, {unit: amount}) if amount else None
    if amount == 0:
        if z is None:
            return tuple(f), None, obs.wall_us(f)
        kind, inst0 = tzref.normalize(tzref.zone(z), f, 1)
        ef, eo = obs.expected_render(z, inst0)
        return ef, eo, inst0
    if e is None:
        return None
    ef, eo = e
    return ef, eo, obs.wall_us(ef) - (eo or 0) * US


def _key(x, z):
    if z == "date":
        return ((x.year, x.month, x.day), None)
    return (obs.fields(x), obs.offset_s(x))


def check_range(acc, pendulum, z, f, span, sign, mode, unit, n, end_zone=None):
    """mode in forward|inverted|absolute-rev|absolute-fwd; sign=+1: other endpoint after start.
    end_zone: express the other endpoint (same instant) in that zone - the sequence must not change."""
    other = c04.add_wall(f if z != "date" else tuple(f[:3]) + (0, 0, 0, 0), span, sign)
    if other is None or not (3 <= other[0] <= 9996):
        return
    conv = (n % 2 == 0)
    a = _mk(pendulum, z, f, converted=conv)
    b = _mk(pendulum, z, other, converted=conv)
    if z not in (None, "date") and (obs.fields(a) != tuple(f) or obs.fields(b) != tuple(other)):
        acc.c["skipped_endpoint_not_valid_wall"] += 1
        return
    ia = obs.instant_us(a) if z != "date" else obs.wall_us(tuple(f[:3]) + (0, 0, 0, 0))
    ib = obs.instant_us(b) if z != "date" else obs.wall_us(tuple(other[:3]) + (0, 0, 0, 0))
    case = {"kind": "range", "z": z, "f": list(f), "span": span, "sign": sign, "mode": mode, "unit": unit, "n": n}
    if end_zone is not None:
        if mode == "absolute" or z in (None, "date"):
            return
        b = b.in_timezone(_tz(pendulum, end_zone))
        case["end_zone"] = end_zone
    if mode == "absolute":
        iv = pendulum.Interval(a, b, absolute=True)
        s_f, s_i, e_i = (f, ia, ib) if ia <= ib else (other, ib, ia)
        direction = 1
    else:
        iv = pendulum.Interval(a, b)
        if z != "date" and end_zone is None and n % 3 == 1:
            # the same interval obtained by subtraction with a NATIVE datetime (same fields, tzinfo and fold) as left or right operand
            import datetime as dt_
            if n % 2:
                iv = dt_.datetime(*obs.fields(b), tzinfo=b.tzinfo, fold=b.fold) - a
            else:
                iv = b - dt_.datetime(*obs.fields(a), tzinfo=a.tzinfo, fold=a.fold)
            case["via"] = "native-operand"
        s_f, s_i, e_i = f, ia, ib
        direction = 1 if ib >= ia else -1
    if z == "date" and unit in FIXED_US:
        return
    # reference sequence
    want = []
    k = 0
    while True:
        r = _ref_step(z, s_f, unit, direction * k * n)
        if r is None:
            want = None
            break
        if (direction == 1 and r[2] > e_i) or (direction == -1 and r[2] < e_i):
            break
        want.append(r)
        k += 1
        if k > MAXN:
            want = None
            break
    if want is None:
        acc.c["skipped_too_long_or_out_of_range"] += 1
        return
    insts = [w[2] for w in want]
    mono = all((y - x) * direction > 0 for x, y in zip(insts, insts[1:]))
    if not mono:
        acc.c["skipped_reference_not_monotone"] += 1
        return
    got = []
    status = "ok"
    worker.horizon(5.0)
    try:
        # both spellings of the step (positional / amount=), alternating with the state
        it = iter(iv) if unit == "ITER" else (iv.range(unit, amount=n) if (len(want) + n) % 2 else iv.range(unit, n))
        for x in it:
            got.append(x)
            if len(got) > len(want) + 3:
                status = "too-many"
                break
    except worker.Hang:
        status = "HANG"
    except Exception as e:  # noqa: BLE001
        status = type(e).__name__
    finally:
        worker.horizon(worker.SHARD_WATCHDOG)
    acc.c["evaluations"] += 1
    acc.c["transitions"] += len(got)
    acc.outcomes[f"{mode}/{'empty' if not want else 'end-reached' if insts[-1] == e_i else 'end-not-reached'}"] += 1
    gk = [_key(x, z) for x in got]
    wk = [(w[0] if z != "date" else w[0], w[1]) for w in want]
    if status != "ok" or gk != wk:
        cls = status if status != "ok" else ("length" if len(gk) != len(wk) else "element")
        acc.mismatch("range", f"{mode}/{cls}", case,
                     {"status": status, "len": len(gk), "first_diff": next((i for i, (x, y) in enumerate(zip(gk, wk)) if x != y), None),
                      "tail": gk[-2:]},
                     {"len": len(wk), "tail": wk[-2:]})
        return
    # containment by the operator's own definition
    import datetime as dt_
    probes = list(got[:3] + got[-2:])
    if z != "date" and got:
        probes += [got[0].subtract(microseconds=1), got[-1].add(microseconds=1), got[-1].add(days=400)]
    for x in probes:
        # the same value as the pendulum object and as its native twin
        if z == "date":
            twins = (x, dt_.date(x.year, x.month, x.day))
        else:
            twins = (x, dt_.datetime(*obs.fields(x), tzinfo=x.tzinfo, fold=x.fold))
        c2 = iv.start <= x <= iv.end
        for lbl, v in zip(("pendulum", "native"), twins):
            acc.c["evaluations"] += 1
            try:
                c1 = v in iv
            except Exception as e:  # noqa: BLE001
                c1 = f"raises {type(e).__name__}"
            if c1 != c2:
                acc.mismatch("contains", f"operator-definition/{lbl}", case, c1, c2)
    for x in got:
        xi = obs.instant_us(x) if z != "date" else obs.wall_us((x.year, x.month, x.day, 0, 0, 0, 0))
        if not (min(s_i, e_i) <= xi <= max(s_i, e_i)):
            acc.mismatch("range", "outside-endpoints", case, xi, [s_i, e_i])
            break


def check_limits(acc, pendulum, z):
    """Intervals that end within a few steps of the supported range of years (1..9999): the step after the last value
    is not representable; the iteration must still stop after the last value not beyond the end."""
    for f, other in (((9999, 12, 29, 0, 0, 0, 0), (9999, 12, 31, 0, 0, 0, 0)), ((1, 1, 3, 0, 0, 0, 0), (1, 1, 1, 0, 0, 0, 0)),
                     ((9999, 10, 31, 0, 0, 0, 0), (9999, 12, 31, 0, 0, 0, 0)), ((1, 3, 31, 0, 0, 0, 0), (1, 1, 1, 0, 0, 0, 0)),
                     ((9990, 12, 31, 0, 0, 0, 0), (9999, 12, 31, 0, 0, 0, 0))):
        a, b = _mk(pendulum, z, f), _mk(pendulum, z, other)
        direction = 1 if other > f else -1
        ei = obs.wall_us(other)
        for unit in ("years", "months", "weeks", "days"):
            for n in (1, 2, 3, 7):
                want, k = [], 0
                while k < MAXN:
                    r = c04.add_wall(f, {unit: direction * k * n})
                    if r is None or (obs.wall_us(r) - ei) * direction > 0:
                        break
                    want.append(tuple(r[:3]))
                    k += 1
                if k >= MAXN:
                    continue
                case = {"kind": "limits", "z": z, "f": list(f), "other": list(other), "unit": unit, "n": n}
                try:
                    got = [(x.year, x.month, x.day) for _, x in zip(range(len(want) + 3), pendulum.Interval(a, b).range(unit, n))]
                except Exception as e:  # noqa: BLE001
                    got = f"raises {type(e).__name__}"
                acc.c["evaluations"] += 1
                acc.c["transitions"] += len(want)
                if got != want:
                    acc.mismatch("range", "end-of-supported-years", case, got if isinstance(got, str) else [len(got), got[-2:]],
                                 [len(want), want[-2:]])


def check_iter(acc, pendulum, z, f, span, sign, mode):
    """Direct iteration == range('days')."""
    other = c04.add_wall(f if z != "date" else tuple(f[:3]) + (0, 0, 0, 0), span, sign)
    if other is None or not (3 <= other[0] <= 9996):
        return
    a = _mk(pendulum, z, f)
    b = _mk(pendulum, z, other)
    iv = pendulum.Interval(a, b, absolute=(mode == "absolute"))
    worker.horizon(5.0)
    try:
        g1 = [_key(x, z) for _, x in zip(range(MAXN), iv)]
        g2 = [_key(x, z) for _, x in zip(range(MAXN), iv.range("days"))]
    except worker.Hang:
        g1, g2 = "HANG", None
    finally:
        worker.horizon(worker.SHARD_WATCHDOG)
    acc.c["evaluations"] += 1
    if g1 != g2:
        acc.mismatch("iter", "vs-range-days", {"kind": "iter", "z": z, "f": list(f), "span": span, "sign": sign,
                                               "mode": mode}, str(g1)[:200], str(g2)[:200])


def starts_for(z, seed, thorough):
    out = []
    if z == "date":
        for y, m in ((2023, 1), (2024, 1), (2024, 2), (2023, 12), (2100, 2), (2000, 8), (1999, 12), (2000, 1), (1900, 1),
                     (2099, 12)):
            for d in (28, 29, 30, 31, 1):
                if d <= calref.days_in_month(y, m):
                    out.append((y, m, d, 0, 0, 0, 0))
        return out
    for y, m, d in ((2023, 1, 31), (2024, 1, 31), (2024, 2, 29), (2023, 12, 31), (2023, 10, 30), (2021, 5, 29),
                    (1999, 12, 31), (2000, 1, 30), (2000, 2, 29), (1900, 1, 31), (2099, 11, 30)):    # century Februaries
        out.append((y, m, d, 8, 30, 15, 500000))
    if z is not None and not isinstance(z, int):
        trs = seeds.pick_transitions(seeds.zone_transitions(z), 8 if thorough else 3, seed)
        for t, ob, oa in trs:
            # a valid wall time a few hours before the transition, and the day before at the skipped/repeated time
            # ... and 30 min before the skipped/repeated wall interval, so that short spans END inside it
            for delta in (-5 * 3600, -86400 + max(ob, oa) - min(ob, oa), 7200, -1800):
                w = (t + min(ob, oa) + delta) * US
                fw = seeds.fields_of_wall(w)
                if 3 <= fw[0] <= 9990:
                    out.append(fw)
    return out


SAME_INSTANT_ZONES = ("UTC", "Asia/Tokyo", "Asia/Kolkata", "America/Bogota")


def run_same_instant(acc, pendulum, inst, thorough):
    """Intervals that start at the SAME instant shown in several zones, explored one after the other: the starts are
    equal and hash-equal, so anything remembered per start must not leak from one zone's range() into the next."""
    for unit in UNITS:
        for si, span in enumerate(SPANS[unit]):
            if not thorough and si % 2:
                continue
            for sign, mode in ((1, "forward"), (-1, "inverted")):
                for n in (1, 2, 3):
                    for z in SAME_INSTANT_ZONES:
                        f = obs.expected_render(z, inst)[0]
                        check_range(acc, pendulum, z, f, span, sign, mode, unit, n)
                        acc.c["nontrivial"] += 1


def check_coexisting(acc, pendulum):
    """Several Intervals ALIVE at the same time (zero-length ones, equal ones, Date and DateTime endpoints): creating or
    iterating one does not change what another yields."""
    U = pendulum.UTC
    P = pendulum.timezone("Europe/Paris")
    mk = [("zero-dt-paris", lambda: (pendulum.DateTime(2024, 3, 10, 12, 30, tzinfo=P),) * 2, "days"),
          ("zero-dt-utc", lambda: (pendulum.DateTime(2031, 7, 1, tzinfo=U),) * 2, "hours"),
          ("zero-date", lambda: (pendulum.Date(2024, 2, 29),) * 2, "days"),
          ("zero-date-2", lambda: (pendulum.Date(1999, 12, 31),) * 2, "months"),
          ("three-days", lambda: (pendulum.DateTime(2021, 1, 30, tzinfo=U), pendulum.DateTime(2021, 2, 2, tzinfo=U)), "days"),
          ("three-days-again", lambda: (pendulum.DateTime(2021, 1, 30, tzinfo=U), pendulum.DateTime(2021, 2, 2, tzinfo=U)), "days"),
          ("inverted", lambda: (pendulum.Date(2020, 3, 3), pendulum.Date(2020, 3, 1)), "days"),
          ("zero-naive", lambda: (pendulum.DateTime(2000, 1, 1, 5),) * 2, "minutes")]

    def key(x):
        return (x.year, x.month, x.day) + ((x.hour, x.minute, x.second, x.microsecond, obs.offset_s(x) if x.tzinfo else None)
                                           if hasattr(x, "hour") else ())

    import itertools
    for order in itertools.permutations(range(len(mk)), 3):
        alive = []
        for i in order:
            name, ends, unit = mk[i]
            a, b = ends()
            iv = pendulum.Interval(a, b)
            n = abs((b - a).days) if name not in ("zero-naive",) and a != b else 0
            step = dt_timedelta_days(1)
            want = [key(a + k * step if a <= b else a - k * step) for k in range(n + 1)] if a != b else [key(a)]
            alive.append((name, iv, unit, want, key(a), key(b)))
        acc.c["states"] += 1
        for name, iv, unit, want, ka, kb in alive:
            acc.c["evaluations"] += 1
            try:
                got = [key(x) for _, x in zip(range(10), iv.range(unit))]
                ends_now = (key(iv.start), key(iv.end))
                it = [key(x) for _, x in zip(range(10), iv)] if unit == "days" else None
            except Exception as e:  # noqa: BLE001
                got, ends_now, it = f"raises {type(e).__name__}", None, None
            case = {"kind": "coexist", "order": [mk[i][0] for i in order], "interval": name}
            acc.c["transitions"] += 1
            if got != want or ends_now != (ka, kb) or (it is not None and it != want):
                acc.mismatch("range", "coexisting-intervals", case, [got, ends_now, it], [want, [ka, kb], want if unit == "days" else None])


def dt_timedelta_days(n):
    import datetime as dt_
    return dt_.timedelta(days=n)


FLOAT_STEPS = (("hours", 2.5), ("hours", 1.5), ("hours", 0.25), ("minutes", 37.5), ("minutes", 0.5), ("seconds", 0.25), ("seconds", 1.5), ("hours", 3.0))
FLOAT_SPANS_S = (30 * 3600, 3 * 3600 + 45 * 60, 75 * 60, 90)


def check_float_steps(acc, pendulum, unit, n, span_s, direction):
    """range(unit, <fractional dyadic step>) between UTC values: start, start + n, start + 2n ... to the microsecond."""
    import datetime as dt_
    from fractions import Fraction as Fr
    case = {"kind": "fsteps", "unit": unit, "n": n, "span": span_s, "dir": direction}
    step_us = Fr(n) * {"hours": 3600, "minutes": 60, "seconds": 1}[unit] * US
    assert step_us.denominator == 1
    step_us = int(step_us)
    if span_s * US // step_us > 2000:
        return
    a = pendulum.DateTime(2021, 5, 10, 22, 45, 50, 250000, tzinfo=pendulum.UTC)
    na = dt_.datetime(2021, 5, 10, 22, 45, 50, 250000)
    b = a.add(seconds=direction * span_s)
    want = []
    k = 0
    while k * step_us <= span_s * US:
        w = na + dt_.timedelta(microseconds=direction * k * step_us)
        want.append((w.year, w.month, w.day, w.hour, w.minute, w.second, w.microsecond))
        k += 1
    got = []
    worker.horizon(5.0)
    try:
        for x in pendulum.Interval(a, b).range(unit, n):
            got.append(obs.fields(x))
            if len(got) > len(want) + 3:
                break
        status = "ok"
    except worker.Hang:
        status = "HANG"
    except Exception as e:  # noqa: BLE001
        status = type(e).__name__
    finally:
        worker.horizon(worker.SHARD_WATCHDOG)
    acc.c["evaluations"] += 1
    acc.c["transitions"] += len(got)
    if status != "ok" or got != want:
        i = next((j for j, (g, w) in enumerate(zip(got, want)) if g != w), min(len(got), len(want)))
        acc.mismatch("range", f"float-step/{unit}", case, [status, len(got), i, got[i] if i < len(got) else None],
                     ["ok", len(want), i, want[i] if i < len(want) else None])


def run_shard(shard):
    import pendulum
    acc = core.Acc(ID)
    if shard.get("kind") == "float-steps":
        for unit, n in FLOAT_STEPS:
            for span_s in FLOAT_SPANS_S:
                for direction in (1, -1):
                    acc.c["states"] += 1
                    check_float_steps(acc, pendulum, unit, n, span_s, direction)
        acc.sample({"float_steps": [list(x) for x in FLOAT_STEPS[:4]]})
        check_coexisting(acc, pendulum)
        return acc.result()
    if shard.get("kind") == "same-instant":
        for inst in shard["instants"]:
            acc.c["states"] += len(SAME_INSTANT_ZONES)
            run_same_instant(acc, pendulum, inst, shard["thorough"])
        acc.sample({"same_instant_starts_in": list(SAME_INSTANT_ZONES), "instant": obs.iso(shard["instants"][0])})
        return acc.result()
    if shard.get("kind") == "allzones":
        # every zone of the database: day steps that land on a wall time skipped by the zone's latest spring-forward gaps
        for z in shard["zones"]:
            gaps = [tr for tr in seeds.zone_transitions(z) if tr[2] > tr[1] and tr[2] - tr[1] <= 7200 and 946684800 < tr[0] < 2082758400][-2:]
            for t, ob, oa in gaps:
                mid = (t + ob + (oa - ob) // 2) * US
                for dd, sign, mode in ((-2, 1, "forward"), (2, -1, "inverted")):
                    f = seeds.fields_of_wall(mid + dd * 86400 * US)
                    acc.c["states"] += 1
                    acc.c["nontrivial"] += 1
                    for unit, n, span in (("days", 1, {"days": 4}), ("days", 2, {"days": 4}), ("weeks", 1, {"days": 15})):
                        check_range(acc, pendulum, z, f, span, sign, mode, unit, n)
        acc.sample({"all_zones_gap_landing_steps": shard["zones"][:3]})
        return acc.result()
    if shard.get("kind") == "limits":
        for z in ("date", None, "UTC"):
            check_limits(acc, pendulum, z)
            acc.c["states"] += 5
        acc.sample({"range_near_year_limits": ["9999-12-29..9999-12-31", "0001-01-03..0001-01-01"]})
        return acc.result()
    z = shard["z"]
    thorough = shard["thorough"]
    steps = range(1, 13) if thorough else (1, 2, 3, 5, 7, 12)
    for f in shard["starts"]:
        acc.c["states"] += 1
        for unit in UNITS:
            for si, span in enumerate(SPANS[unit]):
                for sign, mode in ((1, "forward"), (-1, "inverted"), (-1, "absolute"), (1, "absolute")):
                    for n in steps:
                        if not thorough and (n + si) % 2 and n not in (1, 12):
                            continue
                        check_range(acc, pendulum, z, f, span, sign, mode, unit, n)
                        if n in (1, 3) and mode != "absolute":
                            check_range(acc, pendulum, z, f, span, sign, mode, unit, n,
                                        end_zone=("Asia/Tokyo" if z != "Asia/Tokyo" else "UTC") if n == 1 else "America/St_Johns")
                        acc.c["nontrivial"] += 1
        for span in ({"days": 45}, {"days": 1, "hours": 5}, {}, {"months": 1}):
            for sign, mode in ((1, "forward"), (-1, "inverted"), (-1, "absolute")):
                check_iter(acc, pendulum, z, f, span, sign, mode)
    acc.sample({"zone": str(z), "start": list(shard["starts"][0]), "units": list(UNITS),
                "modes": ["forward", "inverted", "absolute"], "steps": list(steps)})
    return acc.result()


def replay_case(case, acc):
    import pendulum
    if case["kind"] == "coexist":
        check_coexisting(acc, pendulum)
    elif case["kind"] == "fsteps":
        check_float_steps(acc, pendulum, case["unit"], case["n"], case["span"], case["dir"])
    elif case["kind"] == "limits":
        check_limits(acc, pendulum, case["z"])
    elif case["kind"] == "range":
        check_range(acc, pendulum, case["z"], tuple(case["f"]), case["span"], case["sign"], case["mode"],
                    case["unit"], case["n"], end_zone=case.get("end_zone"))
    else:
        check_iter(acc, pendulum, case["z"], tuple(case["f"]), case["span"], case["sign"], case["mode"])


def plan(tier, seed):
    thorough = tier == "thorough"
    # fixed offsets: +05:30, and two that are not whole minutes (+05:30:32, -03:30:41)
    zs = ["UTC", None, "date", 19800, 19832, -12641] + [z for z in seeds.witness_zones(seed, 2) if z != "UTC"]
    shards = []
    for z in zs:
        st = starts_for(z, seed, thorough)
        for ch in seeds.chunks(st, 4 if thorough else 2):
            shards.append({"z": z, "starts": ch, "thorough": thorough})
    # the same exploration on the pure-Python helpers (is_leap / days_in_year / precise_diff twins) for the zones
    # whose reference does not depend on the tz database
    py = [sh for sh in shards if sh["z"] in ("UTC", "date", None)]
    si = [(calref.days_from_civil(y, m, d) * 86400 + 23 * 3600 + 1800) * US for y, m, d in
          ((2023, 1, 30), (2024, 2, 28), (2023, 12, 31), (2023 + seed % 3, 3, 30))]
    shards += [{"kind": "same-instant", "instants": [i], "thorough": thorough} for i in si]
    shards.append({"kind": "limits"})
    shards.append({"kind": "float-steps"})
    shards += [{"kind": "allzones", "zones": ch} for ch in seeds.chunks(list(seeds.all_zones()), 8)]
    return [({"ext": 1, "tz": "sys"}, shards), ({"ext": 0, "tz": "sys"}, py if thorough else py[::2] + py[1::4])]


def evidence(m, tier, seed):
    c = m.c
    return {"coverage": {
        "evaluations": c["evaluations"], "states": c["states"], "transitions": c["transitions"],
        "traces_validated_against_impl": c["transitions"],
        "distinct_nontrivial": c["nontrivial"],
        "rule": "state = (zone, start); starts on month ends and around selected transitions of the witness zones, "
                "UTC, naive, +05:30 and Dates; each start x 8 units x the unit's span set x {forward, inverted, "
                "absolute given reversed, absolute given in order} x steps (quick: {1,2,3,5,7,12} thinned; "
                "thorough: 1..12); every yielded element compared with the independently computed k-th step; "
                "transitions = elements yielded and compared; non-trivial = (start, unit, span, mode, step) "
                "combinations",
        "exhaustive": True,
        "skipped_too_long_or_out_of_range": c["skipped_too_long_or_out_of_range"],
        "skipped_reference_not_monotone": c["skipped_reference_not_monotone"],
        "skipped_endpoint_not_valid_wall": c["skipped_endpoint_not_valid_wall"],
    }, "assumptions": ["the integer models of C03/C04 (validated by those checks) generate the reference sequence"]}
