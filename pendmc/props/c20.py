"""C20 - time-of-day arithmetic wraps modulo 24 hours exactly.

States     : times of day on a boundary grid (thorough: every second of the day x 3 microsecond values).
Operations : add / subtract (hours, minutes, seconds, microseconds), + / - timedelta, then the inverse;
             diff (signed and absolute), t2 - t1, native operands on either side, closest / farthest.
Oracle     : (t + amount) mod 86 400e6 us in integers; result type Time; timedeltas with a day component
             raise TypeError; diff = signed microsecond difference; closest/farthest by |difference|.
"""
from __future__ import annotations

import datetime as dt_

from .. import worker
from .. import core, obs
from . import c03

ID = "C20"
US = 1_000_000
DAYUS = 86400 * US


def t_us(t):
    return ((t.hour * 60 + t.minute) * 60 + t.second) * US + t.microsecond


def us_fields(u):
    s, us = divmod(u, US)
    return (s // 3600, s % 3600 // 60, s % 60, us)


def _grid(thorough):
    if thorough:
        return None
    out = []
    for h in (0, 1, 11, 12, 13, 23):
        for m in (0, 1, 59):
            for s in (0, 1, 59):
                for u in (0, 1, 999999):
                    out.append(((h * 60 + m) * 60 + s) * US + u)
    return out


AWARE_OFFSETS = (0, 7200, -12600)
_FIXED = {}


def _fixed(pendulum, off):
    t = _FIXED.get(off)
    if t is None:
        t = _FIXED[off] = pendulum.timezone("UTC") if off == 0 else pendulum.FixedTimezone(off)
    return t


def check_arith(acc, pendulum, u, kw, variants=True):
    A = c03._total_us(kw)
    t = pendulum.Time(*us_fields(u))
    exp = us_fields((u + A) % DAYUS)
    case = {"kind": "arith", "u": u, "kw": kw}

    def attempt(fn):
        try:
            x = fn()
            return [type(x).__name__, (x.hour, x.minute, x.second, x.microsecond)], x
        except Exception as e:  # noqa: BLE001
            return [f"raises {type(e).__name__}", str(e)[:60]], None
    got, r = attempt(lambda: t.add(**kw))
    acc.c["evaluations"] += 1
    acc.c["transitions"] += 1
    if got != ["Time", exp]:
        acc.mismatch("add", "value", case, got, ["Time", exp])
    if r is not None:
        gotb, b = attempt(lambda: r.subtract(**kw))
        acc.c["evaluations"] += 1
        if gotb != ["Time", us_fields(u)]:
            acc.mismatch("inverse", "subtract-after-add", case, gotb, ["Time", us_fields(u)])
    pos = (kw.get("hours", 0), kw.get("minutes", 0), kw.get("seconds", 0), kw.get("microseconds", 0))
    gotp, _rp = attempt(lambda: t.add(*pos))       # every argument positional, in the documented order
    acc.c["evaluations"] += 1
    if gotp != ["Time", exp]:
        acc.mismatch("add", "positional", case, gotp, ["Time", exp])
    exp_s = us_fields((u - A) % DAYUS)
    gotp, _rp = attempt(lambda: t.subtract(*pos))
    acc.c["evaluations"] += 1
    if gotp != ["Time", exp_s]:
        acc.mismatch("subtract", "positional", case, gotp, ["Time", exp_s])
    got2, r2 = attempt(lambda: t.subtract(**kw))
    acc.c["evaluations"] += 1
    if got2 != ["Time", exp_s]:
        acc.mismatch("subtract", "value", case, got2, ["Time", exp_s])
    # aware receivers naming the same instant of the day with different clock readings (equal and hash-equal to
    # each other, so anything memoised per receiver must not leak from one to the next)
    for off in AWARE_OFFSETS:
        ua = (u + off * US) % DAYUS
        ta = pendulum.Time(*us_fields(ua), tzinfo=_fixed(pendulum, off))
        for name, fn, expv in (("add", lambda: ta.add(**kw), us_fields((ua + A) % DAYUS)),
                               ("subtract", lambda: ta.subtract(**kw), us_fields((ua - A) % DAYUS))):
            got, x = attempt(fn)
            acc.c["evaluations"] += 1
            acc.c["transitions"] += 1
            if got != ["Time", expv]:
                acc.mismatch(name, "aware-receiver", dict(case, offset=off), got, ["Time", expv])
    if not variants:
        return
    td = dt_.timedelta(**kw)
    # the same amounts as pendulum Durations, and as what Time.diff() returns (an AbsoluteDuration)
    if not td.days:
        from pendulum.duration import AbsoluteDuration
        forms = [("plus_Duration", lambda: t + pendulum.duration(**kw), exp), ("minus_Duration", lambda: t - pendulum.duration(**kw), exp_s)]
        if A >= 0:
            ad = AbsoluteDuration(**kw)
            forms += [("plus_AbsoluteDuration", lambda: t + ad, exp), ("add_timedelta(AbsoluteDuration)", lambda: t.add_timedelta(ad), exp),
                      ("minus_AbsoluteDuration", lambda: t - ad, exp_s)]
            t2 = pendulum.Time(*us_fields((u + A) % DAYUS))
            if u + A < DAYUS:
                forms.append(("plus_diff_result", lambda: t + t.diff(t2), exp))
        if A > 0:
            # Intervals (what dt2 - dt1 and dt1.diff(dt2) return) of that elapsed length: between UTC values, and between
            # values of a DST zone on different calendar days with the change in between (their calendar breakdown
            # differs from the elapsed time; the native timedelta value is the elapsed time)
            for lbl, start in (("utc", pendulum.DateTime(2021, 3, 27, 12, 0, 0, 0, tzinfo=pendulum.UTC)),
                               ("paris-dst-start", _PARIS(pendulum, (2021, 3, 27, 12, 0, 0, 0))),
                               ("paris-dst-end", _PARIS(pendulum, (2021, 10, 30, 20, 30, 0, 0))),
                               ("new-york-dst-start", _NY(pendulum, (2021, 3, 13, 23, 0, 0, 5)))):
                end = start + td
                iv, ivd = end - start, start.diff(end)
                if obs.td_us(iv) != A:
                    acc.c["seed_not_canonical"] += 1
                    continue
                forms += [(f"plus_Interval/{lbl}", lambda iv=iv: t + iv, exp), (f"minus_Interval/{lbl}", lambda iv=iv: t - iv, exp_s),
                          (f"plus_diff_Interval/{lbl}", lambda ivd=ivd: t + ivd, exp)]
        for name, fn, expv in forms:
            got, _x = attempt(fn)
            acc.c["evaluations"] += 1
            acc.c["transitions"] += 1
            if got != ["Time", expv]:
                acc.mismatch(name, "value", case, got, ["Time", expv])
    for name, fn, expv in (("plus_td", lambda: t + td, exp), ("minus_td", lambda: t - td, exp_s)):
        acc.c["evaluations"] += 1
        acc.c["transitions"] += 1
        try:
            x = fn()
            got = ("Time" if type(x) is pendulum.Time else type(x).__name__,
                   (x.hour, x.minute, x.second, x.microsecond))
        except TypeError:
            got = "TypeError"
        except Exception as e:  # noqa: BLE001
            got = type(e).__name__
        want = "TypeError" if td.days else ("Time", expv)
        if got != want:
            acc.mismatch(name, "days-rejected" if td.days else "value", case, got, want)
        acc.outcomes["td-with-days" if td.days else "td-within-day"] += 1


_ZONES = {}


def _in(pendulum, z, f):
    tz = _ZONES.get(z)
    if tz is None:
        tz = _ZONES[z] = pendulum.timezone(z)
    return pendulum.DateTime.create(*f, tz=tz)


def _PARIS(pendulum, f):
    return _in(pendulum, "Europe/Paris", f)


def _NY(pendulum, f):
    return _in(pendulum, "America/New_York", f)


def _dur_us(pendulum, d):
    """Signed microseconds of a Duration as its own accessors report it."""
    sec = d.in_seconds()
    us = d.microseconds
    return sec * US + us


def check_pair(acc, pendulum, u1, u2):
    t1 = pendulum.Time(*us_fields(u1))
    t2 = pendulum.Time(*us_fields(u2))
    diff = u2 - u1
    case = {"kind": "pair", "u1": u1, "u2": u2}
    acc.c["evaluations"] += 4
    acc.c["transitions"] += 4
    d = t1.diff(t2, False)
    got = obs.td_us(d)
    if got != diff or _dur_us(pendulum, d) != diff:
        acc.mismatch("diff", "signed", case, {"slots_us": got, "accessor_us": _dur_us(pendulum, d)}, diff)
    a = t1.diff(t2)
    ga = _dur_us(pendulum, a)
    if ga != abs(diff) or a.total_seconds() != abs(diff) / US:
        acc.mismatch("diff", "absolute", case, {"accessor_us": ga, "total_seconds": a.total_seconds()},
                     abs(diff))
    # ... and as the timedelta it is: non-negative, equal to (and hashing like) the timedelta of that length, addable to a Time
    import datetime as dt_
    tdl = dt_.timedelta(microseconds=abs(diff))
    nat = [obs.td_us(a), a == tdl, a >= dt_.timedelta(0), hash(a) == hash(tdl), a.invert == (diff < 0) if diff else True]
    if nat != [abs(diff), True, True, True, True]:
        acc.mismatch("diff", "absolute/as-timedelta", case, nat, [abs(diff), True, True, True, True])
    try:
        back = t1 + a if diff >= 0 else t2 + a
        gb = t_us(back)
    except Exception as e:  # noqa: BLE001
        gb = f"raises {type(e).__name__}"
    if gb != (u2 if diff >= 0 else u1):
        acc.mismatch("diff", "absolute/added-back", case, gb, u2 if diff >= 0 else u1)
    # the components the difference reports (days, h, min, s, us) are the decomposition of that length
    for lbl, dur, val in (("signed", d, diff), ("absolute", a, abs(diff))):
        sg = -1 if val < 0 else 1
        m = abs(val)
        want = tuple(sg * x for x in (m // (86400 * US), m // (3600 * US) % 24, m // (60 * US) % 60, m // US % 60, m % US))
        got = (dur.weeks * 7 + dur.remaining_days, dur.hours, dur.minutes, dur.remaining_seconds, dur.microseconds)
        acc.c["evaluations"] += 1
        if got != want or dur.seconds != sg * (m // US % 86400):
            acc.mismatch("diff", f"{lbl}-components", case, {"components": got, "seconds": dur.seconds},
                         {"components": want, "seconds": sg * (m // US % 86400)})
    s = t2 - t1
    if obs.td_us(s) != diff:
        acc.mismatch("sub", "t2-t1", case, obs.td_us(s), diff)
    n1 = dt_.time(*us_fields(u1))
    s2 = t2 - n1
    s3 = dt_.time(*us_fields(u2)) - t1
    if obs.td_us(s2) != diff or obs.td_us(s3) != diff:
        acc.mismatch("sub", "native-operand", case, [obs.td_us(s2), obs.td_us(s3)], diff)


def check_triple(acc, pendulum, u, a, b):
    t = pendulum.Time(*us_fields(u))
    ta = pendulum.Time(*us_fields(a))
    tb = pendulum.Time(*us_fields(b))
    da, db = abs(a - u), abs(b - u)
    case = {"kind": "triple", "u": u, "a": a, "b": b}
    acc.c["evaluations"] += 2
    acc.c["transitions"] += 2
    c = t.closest(ta, tb)
    f = t.farthest(ta, tb)
    ok_c = {a} if da < db else {b} if db < da else {a, b}
    ok_f = {a} if da > db else {b} if db > da else {a, b}
    if t_us(c) not in ok_c or type(c) is not pendulum.Time:
        acc.mismatch("closest", "sub-second" if abs(da - db) < US else "whole-seconds", case, t_us(c), sorted(ok_c))
    if t_us(f) not in ok_f or type(f) is not pendulum.Time:
        acc.mismatch("farthest", "sub-second" if abs(da - db) < US else "whole-seconds", case, t_us(f), sorted(ok_f))


PAIRSET = sorted({0, 1, 999999, US, US + 1, 59 * US + 999999, 60 * US, 3599 * US + 999999, 3600 * US,
                  12 * 3600 * US, 12 * 3600 * US + 1, 12 * 3600 * US - 1, 43200 * US + 500000,
                  DAYUS - 1, DAYUS - US, DAYUS - US - 1, 6 * 3600 * US + 30 * 60 * US, 9 * 3600 * US,
                  11 * 3600 * US, 13 * 3600 * US, 15 * 3600 * US + 123456, 23 * 3600 * US,
                  45296 * US + 500000, 45296 * US + 500001, 45296 * US + 499999, 45297 * US, 45295 * US + 700000})


def run_shard(shard):
    import pendulum
    acc = core.Acc(ID)
    amounts = c03._amounts(shard["thorough"]) + [{"hours": 49}, {"hours": -49, "minutes": 1},
                                                 {"seconds": 86400 * 3 + 1}, {"microseconds": -(DAYUS * 2 + 1)},
                                                 # amounts far beyond the supported range of years of a date
                                                 {"hours": 10 ** 8}, {"hours": -(10 ** 8) - 1}, {"minutes": 10 ** 10 + 1},
                                                 {"seconds": -(10 ** 12) - 1}, {"microseconds": 10 ** 18 + 1},
                                                 {"hours": 10 ** 8, "minutes": -(10 ** 10), "seconds": 10 ** 12, "microseconds": -1},
                                                 # fractional (dyadic) amounts on either side of the carry thresholds
                                                 {"minutes": 61.25}, {"minutes": -1500.75}, {"hours": 23.5}, {"hours": -47.25},
                                                 {"minutes": 59.5, "seconds": 60}, {"hours": 0.5, "minutes": -0.5}]
    if shard["kind"] == "arith":
        for u in shard["times"]:
            acc.c["states"] += 1
            if u % (3600 * US) in (0, 1, 3600 * US - 1) or u < 2 * US or u > DAYUS - 2 * US:
                acc.c["nontrivial"] += 1
            for i, kw in enumerate(amounts):
                with worker.guarded(acc, "add", {"kind": "arith", "u": u, "kw": kw}):
                    check_arith(acc, pendulum, u, kw, variants=shard["thorough"] or (i + u) % 2 == 0)
        acc.sample({"time": us_fields(shard["times"][0]), "amount": amounts[5]})
    elif shard["kind"] == "arith_range":
        for sec in range(shard["s0"], shard["s1"]):
            for us in (0, 1, 999999):
                u = sec * US + us
                acc.c["states"] += 1
                for i, kw in enumerate(amounts):
                    if (i + sec) % 23 == 0:
                        check_arith(acc, pendulum, u, kw, variants=False)
        acc.c["nontrivial"] += shard["s1"] - shard["s0"]
    elif shard["kind"] == "pairs":
        pts = shard["points"]
        for u1 in shard["left"]:
            for u2 in pts:
                with worker.guarded(acc, "diff", {"kind": "pair", "u1": u1, "u2": u2}):
                    check_pair(acc, pendulum, u1, u2)
                if (u2 - u1) % US:
                    acc.c["nontrivial"] += 1
        acc.c["states"] += len(shard["left"])
        acc.sample({"diff": [us_fields(shard["left"][0]), us_fields(pts[1])]})
    elif shard["kind"] == "triples":
        pts = shard["points"]
        for u in shard["left"]:
            for a in pts:
                for b in pts:
                    check_triple(acc, pendulum, u, a, b)
        acc.c["states"] += len(shard["left"])
        acc.c["nontrivial"] += len(shard["left"])
    return acc.result()


def replay_case(case, acc):
    import pendulum
    if case["kind"] == "arith":
        check_arith(acc, pendulum, case["u"], case["kw"], variants=True)
    elif case["kind"] == "pair":
        check_pair(acc, pendulum, case["u1"], case["u2"])
    elif case["kind"] == "triple":
        check_triple(acc, pendulum, case["u"], case["a"], case["b"])


def plan(tier, seed):
    thorough = tier == "thorough"
    grid = _grid(False)
    extra = [((seed * 7919 + i * 104729) % 86400) * US + (seed * 31 + i * 7) % US for i in range(8)]
    shards = [{"kind": "arith", "times": ch, "thorough": thorough} for ch in core_chunks(grid + extra, 16)]
    pts = sorted(set(grid[::2] + PAIRSET + extra))
    shards += [{"kind": "pairs", "left": ch, "points": pts, "thorough": thorough} for ch in core_chunks(pts, 16)]
    shards += [{"kind": "triples", "left": ch, "points": PAIRSET, "thorough": thorough}
               for ch in core_chunks(PAIRSET + extra, 16)]
    if thorough:
        for s0 in range(0, 86400, 1350):
            shards.append({"kind": "arith_range", "s0": s0, "s1": s0 + 1350, "thorough": True})
    return [({"ext": 1, "tz": "sys"}, shards)]


def core_chunks(seq, n):
    from ..seeds import chunks
    return chunks(seq, n)


def evidence(m, tier, seed):
    c = m.c
    return {"coverage": {
        "evaluations": c["evaluations"], "states": c["states"], "transitions": c["transitions"],
        "traces_validated_against_impl": c["transitions"],
        "distinct_nontrivial": c["nontrivial"],
        "rule": "state = time of day in integer microseconds (boundary grid 6x3x3x3 + 8 seed-rotated times; thorough: "
                "every second x {0,1,999999} us); every state x carry-critical amount alphabet (incl. multi-day) "
                "for add/subtract/+td/-td and inverse; all ordered pairs of the point set for diff/t2-t1/native "
                "operands; all triples over a 27-point set (sub-second spacings included) for closest/farthest; "
                "non-trivial = day/hour-boundary states, pairs with a sub-second difference",
        "exhaustive": True,
    }, "assumptions": []}
