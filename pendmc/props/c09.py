"""C09 - Duration normalisation is consistent with timedelta and with itself.

Seeds   : constructor argument tuples (years, months, weeks, days, hours, minutes, seconds, milliseconds,
          microseconds): every tuple with <= K non-zero components over a per-component boundary alphabet
          (K = 4 quick / 5 thorough), the full product {0,+a,-b}^9, big-magnitude tuples; |total| < 2^53 us.
Oracle  : integer model.  native slots = timedelta(same args, 365 d/y, 30 d/mo); years/months as given;
          weeks, remaining_days, hours, minutes, remaining_seconds, microseconds carry the sign of the part
          without years/months, lie in canonical ranges and sum exactly to it; rebuild from own components;
          total_*/in_* consistent with total_seconds(); AbsoluteDuration reports magnitudes.
"""
from __future__ import annotations

import copy
import datetime as dt_
import itertools

from .. import worker
from .. import core, obs

ID = "C09"
US = 1_000_000
NAMES = ("years", "months", "weeks", "days", "hours", "minutes", "seconds", "milliseconds", "microseconds")
UNIT_US = {"weeks": 7 * 86400 * US, "days": 86400 * US, "hours": 3600 * US, "minutes": 60 * US,
           "seconds": US, "milliseconds": 1000, "microseconds": 1}
ALPHA = {
    "years": (1, -1, 2, -3),
    "months": (1, -1, 11, -12, 13),
    "weeks": (1, -1, 52, -53),
    "days": (1, -1, 6, 7, 8, -6, -7, -8, 365, -366, 10 ** 6, -10 ** 6),
    "hours": (1, -1, 23, 24, 25, -23, -24, -25, 10 ** 6),
    "minutes": (1, -1, 59, 60, 61, -59, -60, -61, -10 ** 6),
    "seconds": (1, -1, 59, 60, 61, -59, -60, -61, 86399, 86400, -86401, 10 ** 6),
    "milliseconds": (1, -1, 999, 1000, 1001, -999, -1000, -1001),
    "microseconds": (1, -1, 999999, 10 ** 6, 10 ** 6 + 1, -999999, -10 ** 6, -(10 ** 6 + 1), 500000, -500000),
}
PROD = {"years": (0, 1, -2), "months": (0, 3, -1), "weeks": (0, 2, -1), "days": (0, 6, -8),
        "hours": (0, 25, -23), "minutes": (0, 61, -59), "seconds": (0, 59, -3601),
        "milliseconds": (0, 1001, -999), "microseconds": (0, 999999, -1000001)}


def rest_us(kw):
    return sum(kw.get(k, 0) * u for k, u in UNIT_US.items())


def sign(x):
    return -1 if x < 0 else 1


import itertools as _it
_PERMS = list(_it.permutations(range(6)))


def check_tuple(acc, pendulum, kw, absolute=False):
    y, mo = kw.get("years", 0), kw.get("months", 0)
    rest = rest_us(kw)
    total = rest + (y * 365 + mo * 30) * 86400 * US
    if abs(total) >= 1 << 53 or abs(rest) >= 1 << 53:
        acc.c["skipped_beyond_float_exact"] += 1
        return
    case = {"kind": "tuple", "kw": kw, "abs": absolute}
    cls = pendulum.duration if not absolute else None
    acc.c["evaluations"] += 1
    acc.c["transitions"] += 1
    if absolute:
        from pendulum.duration import AbsoluteDuration
        d = AbsoluteDuration(**kw)
        rest_eff = abs(rest)
        want = {"years": abs(y), "months": abs(mo)}
    else:
        d = pendulum.Duration(**kw)
        rest_eff = rest
        want = {"years": y, "months": mo}
        # native value = timedelta of the same arguments
        nkw = {k: v for k, v in kw.items() if k not in ("years", "months")}
        nkw["days"] = nkw.get("days", 0) + y * 365 + mo * 30
        n = dt_.timedelta(**nkw)
        if obs.td_us(d) != obs.td_us(n) or obs.td_us(n) != total:
            acc.mismatch("native-slots", "vs-timedelta", case, obs.td_us(d), obs.td_us(n))
        if d.total_seconds() != n.total_seconds():
            acc.mismatch("total_seconds", "vs-timedelta", case, d.total_seconds(), n.total_seconds())
        if not (d == n and hash(d) == hash(n)):
            acc.mismatch("eq-hash", "vs-timedelta", case, [d == n, hash(d) == hash(n)], [True, True])
        # positional construction follows timedelta's order (days, seconds, microseconds, milliseconds, minutes, hours, weeks)
        pos = [kw.get(k, 0) for k in ("days", "seconds", "microseconds", "milliseconds", "minutes", "hours", "weeks")]
        if not (y or mo):
            for lbl, mk in (("Duration(*args)", lambda: pendulum.Duration(*pos)), ("duration(*args)", lambda: pendulum.duration(*pos))):
                acc.c["evaluations"] += 1
                try:
                    hp = mk()
                    gotp = (obs.td_us(hp), hp.hours, hp.minutes)
                except Exception as e:  # noqa: BLE001
                    gotp = f"raises {type(e).__name__}"
                if gotp != (obs.td_us(d), d.hours, d.minutes):
                    acc.mismatch("positional", lbl, case, gotp, [obs.td_us(d), d.hours, d.minutes])
        # the public helper pendulum.duration() must build the same value as the class
        h = pendulum.duration(**kw)
        acc.c["evaluations"] += 1
        acc.c["transitions"] += 1
        if type(h) is not pendulum.Duration or (obs.td_us(h), h.years, h.months, repr(h)) != (obs.td_us(d), d.years, d.months, repr(d)):
            acc.mismatch("helper", "pendulum.duration-vs-Duration", case, [type(h).__name__, obs.td_us(h), h.years, h.months],
                         ["Duration", obs.td_us(d), d.years, d.months])
        at = d.as_timedelta()
        acc.c["evaluations"] += 1
        if type(at) is not dt_.timedelta or obs.td_us(at) != obs.td_us(n):
            acc.mismatch("as_timedelta", "vs-timedelta" if abs(total) < (1 << 32) * US else "vs-timedelta/ge-2^32s", case,
                         [type(at).__name__, obs.td_us(at)], ["timedelta", obs.td_us(n)])
    got = {"years": d.years, "months": d.months}
    if got != want:
        acc.mismatch("years-months", "as-given", case, got, want)
    comp = {"weeks": d.weeks, "remaining_days": d.remaining_days, "hours": d.hours, "minutes": d.minutes,
            "remaining_seconds": d.remaining_seconds, "microseconds": d.microseconds}
    s = sign(rest_eff)
    a = abs(rest_eff)
    exp = {"weeks": a // UNIT_US["weeks"] * s, "remaining_days": a // UNIT_US["days"] % 7 * s,
           "hours": a // UNIT_US["hours"] % 24 * s, "minutes": a // UNIT_US["minutes"] % 60 * s,
           "remaining_seconds": a // US % 60 * s, "microseconds": a % US * s}
    if comp != exp:
        big = "ge-2^32s" if a >= (1 << 32) * US else "lt-2^32s"
        bad = [k for k in exp if comp[k] != exp[k]]
        acc.mismatch("components", f"{big}", case, {k: comp[k] for k in bad}, {k: exp[k] for k in bad})
        return
    # invariants restated on the observed values (independent of `exp`)
    ssum = (((comp["weeks"] * 7 + comp["remaining_days"]) * 24 + comp["hours"]) * 60 + comp["minutes"]) * 60 * US \
        + comp["remaining_seconds"] * US + comp["microseconds"]
    if ssum != rest_eff:
        acc.mismatch("components", "sum", case, ssum, rest_eff)
    if rest:
        acc.c["nontrivial_sign"] += 1 if (y or mo) and sign(rest) != sign(total) else 0
    if d.seconds != a // US % 86400 * s:
        acc.mismatch("seconds-accessor", "value", case, d.seconds, a // US % 86400 * s)
    if absolute:
        # an AbsoluteDuration rebuilt by the copy protocols (whatever the sign of the arguments it was built from)
        import pickle
        me = (obs.td_us(d), d.years, d.months, d.weeks, d.remaining_days, d.hours, d.minutes, d.remaining_seconds, d.microseconds, d.invert)
        for lbl, mk in (("copy", lambda: copy.copy(d)), ("deepcopy", lambda: copy.deepcopy(d)), ("pickle", lambda: pickle.loads(pickle.dumps(d))),
                        ("reduce", lambda: (lambda r: r[0](*r[1]))(d.__reduce__()))):
            acc.c["evaluations"] += 1
            try:
                r2 = mk()
                got = (obs.td_us(r2), r2.years, r2.months, r2.weeks, r2.remaining_days, r2.hours, r2.minutes, r2.remaining_seconds, r2.microseconds, r2.invert)
            except Exception as e:  # noqa: BLE001
                got = f"raises {type(e).__name__}"
            if got != me:
                acc.mismatch("rebuild", f"absolute/{lbl}", case, got, me)
    if not absolute:
        # rebuild from own components
        rb = pendulum.Duration(years=d.years, months=d.months, weeks=d.weeks, days=d.remaining_days,
                               hours=d.hours, minutes=d.minutes, seconds=d.remaining_seconds,
                               microseconds=d.microseconds)
        acc.c["transitions"] += 1
        if obs.td_us(rb) != obs.td_us(d) or (rb.years, rb.months, rb.weeks, rb.remaining_days, rb.hours,
                                              rb.minutes, rb.remaining_seconds, rb.microseconds) != \
                (d.years, d.months, d.weeks, d.remaining_days, d.hours, d.minutes, d.remaining_seconds,
                 d.microseconds):
            acc.mismatch("rebuild", "from-components", case, [obs.td_us(rb), repr(rb)], [obs.td_us(d), repr(d)])
        # the component getters are lazily cached: a FRESH instance read in another order (one of the 720 orders,
        # chosen by the tuple, so that all orders occur across the enumeration) must report the same components
        names = ("weeks", "remaining_days", "hours", "minutes", "remaining_seconds", "microseconds")
        order = _PERMS[(abs(total) + len(kw) * 131) % len(_PERMS)]
        fresh = pendulum.Duration(**kw)
        got_o = {}
        for i_ in order:
            got_o[names[i_]] = getattr(fresh, names[i_])
        acc.c["evaluations"] += 1
        if got_o != comp:
            acc.mismatch("components", "accessor-order", dict(case, order=[names[i_] for i_ in order]), got_o, comp)
        # the library's own rebuilds from components: deepcopy, negation twice, the reduce protocol
        # ... on the fresh value, and again after it has been put into words (twice: the same words)
        def _words():
            w1 = [str(d), d.in_words(), d.in_words(locale="ru"), repr(d)]
            w2 = [str(d), d.in_words(), d.in_words(locale="ru"), repr(d)]
            if w1 != w2:
                acc.mismatch("rebuild", "in_words-twice", case, w2, w1)
        for lbl, mk in (("deepcopy", lambda: copy.deepcopy(d)), ("neg-neg", lambda: -(-d)), ("reduce", lambda: (lambda r: r[0](*r[1]))(d.__reduce__())),
                        ("words", _words),
                        ("after-words/deepcopy", lambda: copy.deepcopy(d)), ("after-words/neg-neg", lambda: -(-d)), ("after-words/abs-of-neg", lambda: -(-(-(-d)))),
                        ("after-words/reduce", lambda: (lambda r: r[0](*r[1]))(d.__reduce__()))):
            if lbl == "words":
                try:
                    mk()
                except Exception:  # noqa: BLE001
                    pass     # C18's business
                continue
            acc.c["evaluations"] += 1
            try:
                r2 = mk()
                got = (obs.td_us(r2), r2.years, r2.months, r2.weeks, r2.remaining_days, r2.hours, r2.minutes, r2.remaining_seconds, r2.microseconds)
            except Exception as e:  # noqa: BLE001
                got = f"raises {type(e).__name__}"
            want = (obs.td_us(d), d.years, d.months, d.weeks, d.remaining_days, d.hours, d.minutes, d.remaining_seconds, d.microseconds)
            if got != want:
                acc.mismatch("rebuild", lbl, case, got, want)
        if d.invert != (total < 0):
            acc.mismatch("invert", "sign-of-total", case, d.invert, total < 0)
    # total_* / in_* consistent with total_seconds()
    ts = d.total_seconds()
    eff_total = abs(rest) if absolute else total
    if absolute and ts != abs(rest) / US:
        acc.mismatch("total_seconds", "absolute", case, ts, abs(rest) / US)
    tot = {"total_minutes": ts / 60, "total_hours": ts / 3600, "total_days": ts / 86400,
           "total_weeks": ts / 86400 / 7}
    got_t = {k: getattr(d, k)() for k in tot}
    if got_t != tot:
        acc.mismatch("total_x", "vs-total_seconds", case, got_t, tot)
    ins = {"in_seconds": int(ts), "in_minutes": int(ts / 60), "in_hours": int(ts / 3600),
           "in_days": int(ts / 86400), "in_weeks": int(ts / 86400 / 7)}
    got_i = {k: getattr(d, k)() for k in ins}
    if got_i != ins:
        acc.mismatch("in_x", "vs-total_seconds", case, got_i, ins)
    if abs(eff_total) < 1 << 45:
        ex = {"in_seconds": US, "in_minutes": 60 * US, "in_hours": 3600 * US, "in_days": 86400 * US,
              "in_weeks": 7 * 86400 * US}
        exact = {k: sign(eff_total) * (abs(eff_total) // u) for k, u in ex.items()}
        if got_i != exact:
            acc.mismatch("in_x", "exact-truncation", case, got_i, exact)


def _tuples_k(k_max, lo, hi):
    """Every tuple with 1..k_max non-zero components; sliced [lo:hi) of the subset list for sharding."""
    subsets = []
    for k in range(1, k_max + 1):
        subsets += list(itertools.combinations(NAMES, k))
    for sub in subsets[lo:hi]:
        for vals in itertools.product(*(ALPHA[n] for n in sub)):
            yield dict(zip(sub, vals))


def n_subsets(k_max):
    import math
    return sum(math.comb(9, k) for k in range(1, k_max + 1))


HUGE = ({"years": -1, "days": 10 ** 9}, {"years": -1, "days": 999999999, "hours": 24, "microseconds": 1},
        {"months": 40, "weeks": -142857143, "days": -3, "hours": -1, "seconds": -2, "microseconds": -3},
        {"years": 3000000, "days": -1094999990, "minutes": 30, "milliseconds": 250},
        {"days": 999999999, "hours": 23, "minutes": 59, "seconds": 59, "microseconds": 999999}, {"days": -999999999},
        {"days": 300000, "seconds": 5, "microseconds": 1}, {"days": -450000, "seconds": -7, "microseconds": -999999},
        {"years": 2, "months": 3, "days": 70000, "microseconds": 3}, {"years": 1, "days": -999999999, "microseconds": -1})


def check_huge(acc, pendulum, kw):
    """Lengths beyond the float-exact range of microseconds (up to timedelta's own limits): the integer-valued parts of
    the statement - the native value, years/months as given, canonical components that sum exactly, rebuilding."""
    y, mo = kw.get("years", 0), kw.get("months", 0)
    rest = rest_us(kw)
    case = {"kind": "huge", "kw": kw}
    nkw = {k: v for k, v in kw.items() if k not in ("years", "months")}
    nkw["days"] = nkw.get("days", 0) + y * 365 + mo * 30
    try:
        n = dt_.timedelta(**nkw)
    except OverflowError:
        acc.c["skipped_native_undefined"] += 1
        return
    acc.c["evaluations"] += 1
    acc.c["transitions"] += 1
    try:
        d = pendulum.Duration(**kw)
    except Exception as e:  # noqa: BLE001
        acc.mismatch("construct", "huge/raises", case, type(e).__name__, obs.td_us(n))
        return
    s, a = sign(rest), abs(rest)
    exp = {"td": obs.td_us(n), "years": y, "months": mo, "weeks": a // UNIT_US["weeks"] * s, "remaining_days": a // UNIT_US["days"] % 7 * s,
           "hours": a // UNIT_US["hours"] % 24 * s, "minutes": a // UNIT_US["minutes"] % 60 * s,
           "remaining_seconds": a // US % 60 * s, "microseconds": a % US * s, "eq": True}
    got = {"td": obs.td_us(d), "years": d.years, "months": d.months, "weeks": d.weeks, "remaining_days": d.remaining_days, "hours": d.hours,
           "minutes": d.minutes, "remaining_seconds": d.remaining_seconds, "microseconds": d.microseconds, "eq": d == n}
    if got != exp:
        bad = [k for k in exp if got[k] != exp[k]]
        acc.mismatch("components", "huge", case, {k: got[k] for k in bad}, {k: exp[k] for k in bad})
        return
    try:
        rb = pendulum.Duration(years=d.years, months=d.months, weeks=d.weeks, days=d.remaining_days, hours=d.hours, minutes=d.minutes,
                               seconds=d.remaining_seconds, microseconds=d.microseconds)
        g2 = (obs.td_us(rb), rb.years, rb.months, rb == d)
    except Exception as e:  # noqa: BLE001
        g2 = f"raises {type(e).__name__}"
    if g2 != (obs.td_us(d), y, mo, True):
        acc.mismatch("rebuild", "huge", case, g2, [obs.td_us(d), y, mo, True])


def run_shard(shard):
    import pendulum
    acc = core.Acc(ID)
    n = 0
    if shard["kind"] == "k":
        it = _tuples_k(shard["k"], shard["lo"], shard["hi"])
    elif shard["kind"] == "prod":
        names = NAMES
        first = PROD[names[0]][shard["i0"]], PROD[names[1]][shard["i1"]]
        it = (dict((k, v) for k, v in zip(names, first + rest) if v)
              for rest in itertools.product(*(PROD[nm] for nm in names[2:])))
    else:
        big = [{"days": 10 ** 8, "microseconds": 1}, {"days": -10 ** 8, "microseconds": -1},
               {"seconds": (1 << 32) + 1, "microseconds": 999999}, {"seconds": -(1 << 32) - 1, "microseconds": -1},
               {"seconds": (1 << 33), "microseconds": 1}, {"days": 99999999, "hours": 23, "microseconds": 999999},
               {"weeks": 10 ** 6, "days": -1, "microseconds": 1}, {"years": 100, "days": -36500, "seconds": 1},
               {"years": -1, "hours": 5}, {"years": 1, "days": -3}, {"months": -2, "microseconds": 250000},
               {"days": 49710, "seconds": 23296, "microseconds": 1}, {"days": -49711, "microseconds": 3}]
        for sec in (1 << 31, (1 << 32) - 1, 1 << 32, (1 << 32) + 1, 5 * 10 ** 9, 8 * 10 ** 9, (1 << 33) - 1):
            for us in (1, 3, 499999, 500001, 999999):
                big.append({"seconds": sec, "microseconds": us})
                big.append({"seconds": -sec, "microseconds": -us})
                big.append({"days": sec // 86400, "seconds": sec % 86400, "microseconds": us})
        # calendar components that cancel: the 365-/30-day weights of years and months against each other (6 y = 73 mo),
        # against days/weeks/hours, years against months as a count (1 y = 12 mo), and their neighbours
        for y, mo in ((6, -73), (-6, 73), (12, -146), (6, -72), (6, -74), (1, -12), (-1, 12), (2, -24), (1, -13), (-30, 365), (30, -365)):
            for extra in ({}, {"weeks": 1, "days": 3}, {"hours": -5, "microseconds": 1}, {"seconds": 1}):
                big.append(dict({"years": y, "months": mo}, **extra))
        for kw in ({"years": 1, "days": -365}, {"years": -1, "days": 365}, {"months": 1, "days": -30}, {"months": -1, "days": 30},
                   {"years": 1, "hours": -8760}, {"months": 7, "weeks": -30}, {"years": 1, "months": 1, "days": -395},
                   {"years": 1, "days": -365, "microseconds": 1}, {"months": -1, "days": 30, "microseconds": -1},
                   {"years": 7, "weeks": -365}, {"weeks": 1, "days": -7}, {"hours": 24, "days": -1}, {"minutes": 1, "seconds": -60},
                   {"seconds": 1, "milliseconds": -1000}, {"milliseconds": 1, "microseconds": -1000}):
            big.append(kw)
        it = iter(big)
        for kw in HUGE:
            with worker.guarded(acc, "construct", {"kind": "huge", "kw": kw}):
                check_huge(acc, pendulum, kw)
        # AbsoluteDurations of a day and more given as a bare number of microseconds / seconds (what arithmetic on a Time.diff()
        # result constructs), either sign
        for kw in ({"microseconds": 86400 * US}, {"microseconds": 3 * 86400 * US + 7}, {"microseconds": -(25 * 3600 * US + 7)},
                   {"microseconds": 8 * 86400 * US - 1}, {"microseconds": -(7 * 86400 * US)}, {"seconds": 90000}, {"seconds": -700000, "microseconds": -5},
                   {"microseconds": 86399999999}, {"microseconds": -86400000001}, {"microseconds": (1 << 33) * US + 1}):
            with worker.guarded(acc, "construct", {"kind": "tuple", "kw": kw, "abs": True}):
                check_tuple(acc, pendulum, kw, absolute=True)
    for kw in it:
        n += 1
        if len({v < 0 for v in kw.values() if v}) == 2:
            acc.c["nontrivial"] += 1     # mixed-sign tuple: sign-aware carries are exercised
        with worker.guarded(acc, "construct", {"kind": "tuple", "kw": kw, "abs": False}):
            check_tuple(acc, pendulum, kw)
            if shard.get("abs") and n % 3 == 0:
                check_tuple(acc, pendulum, kw, absolute=True)
        if n == 7:
            acc.sample(kw)
    acc.c["states"] += n
    return acc.result()


def replay_case(case, acc):
    import pendulum
    if case.get("kind") == "huge":
        check_huge(acc, pendulum, case["kw"])
        return
    check_tuple(acc, pendulum, case["kw"], absolute=case.get("abs", False))


def plan(tier, seed):
    thorough = tier == "thorough"
    k = 5 if thorough else 4
    ns = n_subsets(k)
    step = max(1, ns // 48)
    shards = [{"kind": "k", "k": k, "lo": lo, "hi": min(ns, lo + step), "abs": True} for lo in range(0, ns, step)]
    shards += [{"kind": "prod", "i0": a, "i1": b, "abs": True} for a in range(3) for b in range(3)]
    shards.append({"kind": "big"})
    return [({"ext": 1, "tz": "sys"}, shards)]


def evidence(m, tier, seed):
    c = m.c
    return {"coverage": {
        "evaluations": c["evaluations"], "states": c["states"], "transitions": c["transitions"],
        "traces_validated_against_impl": c["transitions"],
        "distinct_nontrivial": c["nontrivial"],
        "rule": "state = constructor argument tuple; every tuple with <= K non-zero components (K=4 quick, 5 thorough) "
                "over the per-component boundary alphabet, the full product {0,+a,-b}^9 (19 683 tuples) and "
                "big-magnitude tuples around 2^31..2^33 s; every third tuple also through AbsoluteDuration; each "
                "tuple is distinct by construction; non-trivial = tuples with components of both signs; nontrivial_sign counts tuples whose years/months flip the sign "
                "of the total against the rest",
        "exhaustive": True,
        "tuples_with_years_months_opposite_sign": c["nontrivial_sign"],
        "skipped_beyond_float_exact": c["skipped_beyond_float_exact"],
    }, "assumptions": ["native datetime.timedelta is the oracle for the timedelta value (named by the property)"]}
