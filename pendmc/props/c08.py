"""C08 - format() renders every token correctly and from_format() inverts it.

Seeds      : DateTimes over years {1000, 1969-1971, 1999-2001, 2020, 2024, 9999} x month/day edges x 4 times of day x
             zones (witness zones with whole-minute offsets, fixed offsets incl. negative sub-hour ones, naive) x locales.
Operations : each documented token alone; every ordered pair of tokens joined by each of 6 separators; [literal] blocks
             and backslash escapes; the named to_*_string() helpers; from_format(dt.format(fmt), fmt) for every format
             of the grammar date part x time part x fraction width x (Z | ZZ | z | none), with and without literals,
             in every locale for localized month/day names; defaulting from an injected `now`; non-matching strings.
Oracle     : per-token reference renderer built on integers / strftime / the locale data; named helpers = documented
             compositions; inversion returns the same fields and offset; non-matching -> ValueError.
"""
from __future__ import annotations

import datetime as dt_
import itertools

from .. import worker
from .. import core, obs, seeds
from ..ref import calref
from . import c18

ID = "C08"
AMBIENT = {"ws": 6}     # this module varies the other setting itself
US = 1_000_000
TOKENS = ["YYYY", "YY", "Y", "Q", "Qo", "MMMM", "MMM", "MM", "M", "Mo", "DDDD", "DDD", "DD", "D", "Do", "dddd", "ddd",
          "dd", "d", "E", "HH", "H", "hh", "h", "mm", "m", "ss", "s", "S", "SS", "SSS", "SSSS", "SSSSS", "SSSSSS", "A",
          "Z", "ZZ", "z", "zz", "X", "x", "LT", "LTS", "L", "LL", "LLL", "LLLL"]
SEPS = ["-", " ", "/", ":", "T", ", "]
DEFAULT_L = {"LTS": "h:mm:ss A", "LT": "h:mm A", "L": "MM/DD/YYYY", "LL": "MMMM D, YYYY", "LLL": "MMMM D, YYYY h:mm A",
             "LLLL": "dddd, MMMM D, YYYY h:mm A"}
_TZ = {}


def _tz(pendulum, z):
    t = _TZ.get(z)
    if t is None:
        t = _TZ[z] = pendulum.timezone(z)
    return t


def ordinal_suffix_en(n):
    if n % 100 in (11, 12, 13):
        return "th"
    return {1: "st", 2: "nd", 3: "rd"}.get(n % 10, "th")


def ordinalize(loc, n):
    d = c18.data(loc)
    if loc in ("en", "en_gb", "en_us"):
        return f"{n}{ordinal_suffix_en(n)}"
    cls = d["ordinal"](n)
    suf = c18.look(d, f"custom.ordinal.{cls}")
    return f"{n}{suf}" if suf else f"{n}"


def _ord_expected(tok, nat, loc):
    n = {"DDDo": nat.timetuple().tm_yday, "Do": nat.day, "Mo": nat.month, "Qo": (nat.month + 2) // 3,
         "wo": nat.isocalendar()[1]}[tok]
    return ordinalize(loc, n)


def ref_token(tok, nat, loc, inst, zname):
    """Reference rendering of one token.  nat: native datetime twin; inst: instant us or None (naive)."""
    d = c18.data(loc)
    y, mo, dd = nat.year, nat.month, nat.day
    wd = nat.weekday()
    doy = nat.timetuple().tm_yday
    if tok == "YYYY" or tok == "Y":
        return str(y)
    if tok == "YY":
        return nat.strftime("%y") if y >= 1000 else str(y)[2:]
    if tok == "Q":
        return str((mo + 2) // 3)
    if tok == "Qo":
        return ordinalize(loc, (mo + 2) // 3)
    if tok == "MMMM":
        return c18.look(d, "translations.months.wide")[mo]
    if tok == "MMM":
        return c18.look(d, "translations.months.abbreviated")[mo]
    if tok == "MM":
        return nat.strftime("%m")
    if tok == "M":
        return str(mo)
    if tok == "Mo":
        return ordinalize(loc, mo)
    if tok == "DDDD":
        return nat.strftime("%j")
    if tok == "DDD":
        return str(doy)
    if tok == "DD":
        return nat.strftime("%d")
    if tok == "D":
        return str(dd)
    if tok == "Do":
        return ordinalize(loc, dd)
    if tok == "dddd":
        return c18.look(d, "translations.days.wide")[wd]
    if tok == "ddd":
        return c18.look(d, "translations.days.abbreviated")[wd]
    if tok == "dd":
        return c18.look(d, "translations.days.short")[wd]
    if tok == "d":
        return nat.strftime("%w")
    if tok == "E":
        return nat.strftime("%u")
    if tok == "HH":
        return nat.strftime("%H")
    if tok == "H":
        return str(nat.hour)
    if tok == "hh":
        return nat.strftime("%I")
    if tok == "h":
        return str(int(nat.strftime("%I")))
    if tok == "mm":
        return nat.strftime("%M")
    if tok == "m":
        return str(nat.minute)
    if tok == "ss":
        return nat.strftime("%S")
    if tok == "s":
        return str(nat.second)
    if tok and set(tok) == {"S"}:
        return nat.strftime("%f")[:len(tok)]
    if tok == "A":
        return c18.look(d, "translations.day_periods." + ("pm" if nat.hour >= 12 else "am"))
    if tok in ("Z", "ZZ"):
        if nat.tzinfo is None:
            return ""
        z = nat.strftime("%z")[:5]
        return z[:3] + ":" + z[3:] if tok == "Z" else z
    if tok == "z":
        return "" if zname is None else zname
    if tok == "zz":
        return "" if nat.tzinfo is None else (nat.tzname() or "")
    if tok == "X":
        return str(inst // US)
    if tok == "x":
        return str(inst // 1000)
    if tok in DEFAULT_L:
        sub = c18.look(d, f"custom.date_formats.{tok}") or DEFAULT_L[tok]
        return ref_format(tokenize(sub), nat, loc, inst, zname)
    raise KeyError(tok)


def tokenize(fmt):
    """Reference tokenizer: longest documented token first; [..] literal; backslash escape."""
    out = []
    i = 0
    allt = sorted(TOKENS + ["a"], key=len, reverse=True)
    while i < len(fmt):
        ch = fmt[i]
        if ch == "[":
            j = fmt.find("]", i)
            if j > 0:
                out.append(("lit", fmt[i + 1:j]))
                i = j + 1
                continue
        if ch == "\\" and i + 1 < len(fmt):
            out.append(("lit", fmt[i + 1]))
            i += 2
            continue
        for t in allt:
            if fmt.startswith(t, i):
                out.append(("tok", t))
                i += len(t)
                break
        else:
            out.append(("lit", ch))
            i += 1
    return out


def ref_format(parts, nat, loc, inst, zname):
    s = ""
    for kind, v in parts:
        s += v if kind == "lit" else ref_token(v, nat, loc, inst, zname)
    return s


def mk(pendulum, z, f):
    """(pendulum value, native twin, instant or None, zone name)."""
    if z is None:
        x = pendulum.DateTime(*f)
        return x, dt_.datetime(*f), obs.wall_us(f), None
    x = pendulum.DateTime.create(*f, tz=_tz(pendulum, z))
    nat = dt_.datetime(*obs.fields(x), tzinfo=x.tzinfo, fold=x.fold)
    return x, nat, obs.instant_us(x), x.timezone_name


def _fmt(x, fmt, loc):
    try:
        return ("ok", x.format(fmt, locale=loc))
    except Exception as e:  # noqa: BLE001
        return ("raises", f"{type(e).__name__}: {str(e)[:50]}")


def check_tokens(acc, pendulum, z, f, loc, pairs=False):
    x, nat, inst, zname = mk(pendulum, z, f)
    case = {"kind": "tok", "z": z, "f": list(f), "loc": loc}
    singles = {}
    for tok in TOKENS:
        got = _fmt(x, tok, loc)
        want = ref_token(tok, nat, loc, inst, zname)
        singles[tok] = want
        acc.c["evaluations"] += 1
        acc.c["transitions"] += 1
        if got != ("ok", want):
            kf = "C08-naive-timestamp-token" if (z is None and tok in ("X", "x") and got[0] == "raises"
                                                 and got[1].startswith("TypeError")) else None
            acc.mismatch("token", tok, dict(case, tok=tok), got, want, kf=kf)
    if pairs:
        for a, b in itertools.product(TOKENS, repeat=2):
            for sep in SEPS:
                fmt = a + sep + b
                got = _fmt(x, fmt, loc)
                parts = tokenize(fmt)
                if parts == [("tok", a)] + [("lit", ch) for ch in sep] + [("tok", b)]:
                    want = singles[a] + sep + singles[b]
                else:
                    # the separator fuses with a neighbour into another documented token (L + T -> LT)
                    want = ref_format(parts, nat, loc, inst, zname)
                acc.c["evaluations"] += 1
                if got != ("ok", want):
                    kf = "C08-naive-timestamp-token" if (z is None and ("X" in (a, b) or "x" in (a, b)) and got[0] == "raises"
                                                         and got[1].startswith("TypeError")) else None
                    acc.mismatch("token-pair", "pair", dict(case, fmt=fmt), got, want, kf=kf)
    # the same value carrying a stdlib tzinfo (what astimezone(<stdlib tz>) returns): offset and timestamp tokens and
    # the helpers built on them render exactly as for the pendulum-zoned value
    if z is not None and loc == "en" and not pairs and obs.offset_s(x) % 60 == 0:
        fx = x.astimezone(dt_.timezone(x.utcoffset()))
        for tok in ("Z", "ZZ", "X", "x", "YYYY-MM-DDTHH:mm:ss.SSSSSSZ"):
            acc.c["evaluations"] += 1
            got = _fmt(fx, tok, loc)
            want = _fmt(x, tok, loc)
            if got != want:
                acc.mismatch("token", f"{tok}/stdlib-tzinfo-receiver", dict(case, tok=tok), got, want)
        for name in ("to_atom_string", "to_rfc2822_string", "to_w3c_string", "to_rss_string"):
            acc.c["evaluations"] += 1
            try:
                got, want = getattr(fx, name)(), getattr(x, name)()
            except Exception as e:  # noqa: BLE001
                got, want = f"raises {type(e).__name__}", "a string"
            if got != want:
                acc.mismatch("named", f"{name}/stdlib-tzinfo-receiver", dict(case, name=name), got, want)
    # the process-wide default locale (set_locale) must give what the explicit locale= argument gives
    if loc != "en":
        pendulum.set_locale(loc)
        try:
            for tok in ("MMMM", "dddd", "Do", "LLLL", "A"):
                acc.c["evaluations"] += 1
                try:
                    got = ("ok", x.format(tok))
                except Exception as e:  # noqa: BLE001
                    got = ("raises", type(e).__name__)
                if got != ("ok", singles[tok]):
                    acc.mismatch("token", f"{tok}/global-locale", dict(case, tok=tok), got, singles[tok])
        finally:
            pendulum.set_locale("en")
    # literals and escapes
    for fmt, want in (("[Today is] dddd", "Today is " + singles["dddd"]), ("YYYY [YYYY] MM", f"{singles['YYYY']} YYYY {singles['MM']}"),
                      ("HH\\hmm", singles["HH"] + "h" + singles["mm"]), ("[at] h A", "at " + singles["h"] + " " + singles["A"]),
                      ("[T]HH[Z]", "T" + singles["HH"] + "Z"), ("D[ ][-]M", singles["D"] + " -" + singles["M"]),
                      ("[D] D \\D \\\\", None)):
        if want is None:
            continue
        got = _fmt(x, fmt, loc)
        acc.c["evaluations"] += 1
        if got != ("ok", want):
            acc.mismatch("literal", "escape", dict(case, fmt=fmt), got, want)
    # every token spelling (the localized-format tokens LT .. LLLL included) and some words made of token letters, escaped:
    # emitted verbatim, next to a live token
    for lit in (list(TOKENS) + ["Local time:", "Day", "Month Year", "AM at Zone", "h", "Hmm"]) if loc in ("en", "fr") else ():
        for fmt, want in ((f"[{lit}] HH", f"{lit} {singles['HH']}"), (f"YYYY[{lit}]", f"{singles['YYYY']}{lit}")):
            got = _fmt(x, fmt, loc)
            acc.c["evaluations"] += 1
            if got != ("ok", want):
                acc.mismatch("literal", "escaped-token-text", dict(case, fmt=fmt), got, want)
    for ch in "YQMDdEHhmsSAaZzXxLTWwo":
        fmt = f"HH\\{ch}mm"
        got = _fmt(x, fmt, loc)
        acc.c["evaluations"] += 1
        if got != ("ok", singles["HH"] + ch + singles["mm"]):
            acc.mismatch("literal", "backslash-escaped-letter", dict(case, fmt=fmt), got, singles["HH"] + ch + singles["mm"])


DEFAULT_LOCALES = ("fr", "ru")


COMPOSITIONS = {"to_day_datetime_string": "ddd, MMM D, YYYY h:mm A", "to_atom_string": "YYYY-MM-DDTHH:mm:ssZ", "to_w3c_string": "YYYY-MM-DDTHH:mm:ssZ",
                "to_cookie_string": "dddd, DD-MMM-YYYY HH:mm:ss zz", "to_rfc822_string": "ddd, DD MMM YY HH:mm:ss ZZ",
                "to_rfc850_string": "dddd, DD-MMM-YY HH:mm:ss zz", "to_rfc1036_string": "ddd, DD MMM YY HH:mm:ss ZZ",
                "to_rfc1123_string": "ddd, DD MMM YYYY HH:mm:ss ZZ", "to_rfc2822_string": "ddd, DD MMM YYYY HH:mm:ss ZZ",
                "to_rss_string": "ddd, DD MMM YYYY HH:mm:ss ZZ", "to_date_string": "YYYY-MM-DD", "to_time_string": "HH:mm:ss",
                "to_datetime_string": "YYYY-MM-DD HH:mm:ss", "to_formatted_date_string": "MMM DD, YYYY"}


def check_compositions_lmt(acc, pendulum):
    """The named helpers ARE their documented format() compositions - also where the zone's offset carries seconds (local mean
    time eras), which the token-level oracle leaves out: helper() == format(<its composition>, locale='en')."""
    for zn, f in (("Europe/Paris", (1900, 6, 15, 12, 0, 0, 0)), ("Africa/Monrovia", (1960, 2, 3, 4, 5, 6, 7)), ("America/New_York", (1880, 12, 31, 23, 59, 59, 999999)),
                  ("Asia/Tokyo", (1800, 1, 5, 8, 9, 10, 0)), ("Europe/Amsterdam", (1930, 7, 1, 0, 0, 0, 0)), ("Asia/Kolkata", (2024, 5, 5, 5, 5, 5, 5))):
        x = pendulum.DateTime.create(*f, tz=pendulum.timezone(zn))
        for name, fmt in COMPOSITIONS.items():
            acc.c["evaluations"] += 1
            try:
                got, want = getattr(x, name)(), x.format(fmt, locale="en")
            except Exception as e:  # noqa: BLE001
                got, want = f"raises {type(e).__name__}", "a string"
            if got != want:
                acc.mismatch("named", f"{name}/composition", {"kind": "def", "text": zn, "fmt": name}, got, want)


def check_named(acc, pendulum, z, f):
    x, nat, inst, zname = mk(pendulum, z, f)
    case = {"kind": "named", "z": z, "f": list(f)}
    en = lambda fmt: ref_format(tokenize(fmt), nat, "en", inst, zname)  # noqa: E731
    iso = nat.isoformat("T")
    exp = {
        "to_date_string": nat.strftime("%Y-%m-%d"), "to_formatted_date_string": nat.strftime("%b %d, %Y"),
        "to_time_string": nat.strftime("%H:%M:%S"), "to_datetime_string": nat.strftime("%Y-%m-%d %H:%M:%S"),
        "to_day_datetime_string": en("ddd, MMM D, YYYY h:mm A"), "to_atom_string": en("YYYY-MM-DDTHH:mm:ssZ"),
        "to_cookie_string": en("dddd, DD-MMM-YYYY HH:mm:ss zz"),
        "to_iso8601_string": iso.replace("+00:00", "Z") if zname == "UTC" else iso,
        "to_rfc822_string": en("ddd, DD MMM YY HH:mm:ss ZZ"), "to_rfc850_string": en("dddd, DD-MMM-YY HH:mm:ss zz"),
        "to_rfc1036_string": en("ddd, DD MMM YY HH:mm:ss ZZ"), "to_rfc1123_string": en("ddd, DD MMM YYYY HH:mm:ss ZZ"),
        "to_rfc2822_string": en("ddd, DD MMM YYYY HH:mm:ss ZZ"), "to_rfc3339_string": iso,
        "to_rss_string": en("ddd, DD MMM YYYY HH:mm:ss ZZ"), "to_w3c_string": en("YYYY-MM-DDTHH:mm:ssZ"),
    }
    for name, want in exp.items():
        acc.c["evaluations"] += 1
        acc.c["transitions"] += 1
        try:
            got = getattr(x, name)()
        except Exception as e:  # noqa: BLE001
            got = f"raises {type(e).__name__}"
        if got != want:
            acc.mismatch("named", name, dict(case, name=name), got, want)
    # under a non-English process-wide default locale: the helpers that are numeric, and the two the library pins
    # to English (cookie, day-datetime), must not change
    stable = ("to_date_string", "to_formatted_date_string", "to_time_string", "to_datetime_string", "to_day_datetime_string",
              "to_atom_string", "to_cookie_string", "to_iso8601_string", "to_rfc3339_string", "to_w3c_string")
    for dl in DEFAULT_LOCALES:
        pendulum.set_locale(dl)
        try:
            for name in stable:
                acc.c["evaluations"] += 1
                try:
                    got = getattr(x, name)()
                except Exception as e:  # noqa: BLE001
                    got = f"raises {type(e).__name__}"
                if got != exp[name]:
                    acc.mismatch("named", f"{name}/default-locale", dict(case, name=name, default_locale=dl), got, exp[name])
        finally:
            pendulum.set_locale("en")
    if nat.tzinfo is not None and nat.strftime("%z")[5:] == "":
        # cross-check the composed helpers against pure strftime where the C locale agrees with 'en'
        if x.to_rfc2822_string() != nat.strftime("%a, %d %b %Y %H:%M:%S %z"):
            acc.mismatch("named", "rfc2822-vs-strftime", case, x.to_rfc2822_string(), nat.strftime("%a, %d %b %Y %H:%M:%S %z"))


DATE_PARTS = ["YYYY-MM-DD", "DD/MM/YYYY", "YYYY/M/D", "D MMMM YYYY", "MMM D, YYYY", "dddd D MMMM YYYY", "YYYY-DDDD",
              "Do MMMM YYYY", "YYYY MM DD", "ddd, DD MMM YYYY"]
TIME_PARTS = ["HH:mm:ss", "H:m:s", "hh:mm:ss A", "h:mm:ss A", "HH[h]mm[m]ss"]
FRACS = ["", ".S", ".SS", ".SSS", ".SSSSSS"]
LITERAL_FMTS = ["YYYY-MM-DD [at] HH:mm:ss.SSSSSS Z", "[week] YYYY-MM-DD[T]HH:mm:ss.SSSSSS ZZ",
                "YYYY-MM-DD \\T HH:mm:ss.SSSSSS Z", "[on] dddd D MMMM YYYY [at] H:m:s.SSSSSS z",
                "[d]D [m]M [y]YYYY HH:mm:ss.SSSSSS Z"]
TZS = [" Z", " ZZ", " z", ""]


def check_roundtrip(acc, pendulum, z, f, loc, fmt, full):
    x, nat, inst, zname = mk(pendulum, z, f)
    case = {"kind": "rt", "z": z, "f": list(f), "loc": loc, "fmt": fmt}
    if z is not None and obs.offset_s(x) % 60:
        acc.c["skipped_sub_minute_offset"] += 1      # the property is about whole-minute offsets
        return
    s = x.format(fmt, locale=loc)
    acc.c["evaluations"] += 1
    acc.c["transitions"] += 2
    has_tz = any(t in fmt for t in (" Z", " ZZ", " z"))
    try:
        tzarg = x.tz if (not has_tz and x.tz is not None) else "UTC"
        r = pendulum.from_format(s, fmt, tz=tzarg, locale=loc)
        got = (obs.fields(r), obs.offset_s(r))
    except Exception as e:  # noqa: BLE001
        got = f"raises {type(e).__name__}: {str(e)[:60]}"
    # precision of the format
    width = 6 if "SSSSSS" in fmt else 3 if "SSS" in fmt else 2 if "SS" in fmt else 1 if ".S" in fmt else 0
    us = (x.microsecond // 10 ** (6 - width)) * 10 ** (6 - width) if width else 0
    wf = obs.fields(x)[:6] + (us,)
    if z is None:
        want = (wf, 0)      # a naive source has no zone: from_format interprets it in the tz argument (UTC)
    else:
        want = (wf, obs.offset_s(x))
    if got != want:
        kf = None
        if isinstance(got, str) and kf_literal_format(fmt):
            kf = "C08-from-format-literal"
        cls = "full" if full else "partial"
        acc.mismatch("from_format", f"{cls}/{'zone-name' if ' z' in fmt else 'offset' if has_tz else 'no-tz'}", dict(case, text=s),
                     got, want, kf=kf)


def kf_d_token(fmt, f, got):
    """C08-d-token-numbering: format() numbers d from Sunday = 0, from_format() reads it from Monday = 0 and lets it
    override the day: the result is the weekday numbered d (Monday = 0) in the Monday-based week of the date."""
    import re
    if not re.search(r"(?<![dD])d(?![dDo])", re.sub(r"\[[^\]]*\]", "", fmt)) or isinstance(got, str):
        return False
    n = calref.days_from_civil(*f[:3])
    wd_mon0 = (n + 3) % 7                     # 1970-01-01 was a Thursday (Monday = 0 -> 3)
    shown = (wd_mon0 + 1) % 7                 # what format('d') printed
    target = n - wd_mon0 + shown              # that number read as Monday = 0, inside the same Monday-based week
    return tuple(got[0][:3]) == tuple(calref.civil_from_days(target)) and tuple(got[0][3:]) == tuple(f[3:6]) + (got[0][6],)


EXTRA_FMTS = ["X", "x", "YY-MM-DD HH:mm:ss.SSSSSS Z", "YYYY-MM-DD E HH:mm:ss.SSSSSS Z", "YYYY-MM-DD d HH:mm:ss.SSSSSS Z",
              "YYYY-DDDD HH:mm:ss.SSSSSS ZZ", "YYYY-DDD HH:mm:ss.SSSSSS Z", "YYYY Q", "YYYY-MM-DD HH:mm:ss.SSSSSS ZZ [Q]Q",
              "dddd, MMMM Do YYYY, h:mm:ss.SSSSSS A Z"]


def check_extra(acc, pendulum, z, f):
    """Round trips through the tokens the grammar does not produce: timestamps, 2-digit years, weekday numbers,
    day of year, quarter."""
    x, nat, inst, zname = mk(pendulum, z, f)
    if z is None or obs.offset_s(x) % 60:
        return
    for fmt in EXTRA_FMTS:
        case = {"kind": "xt", "z": z, "f": list(f), "fmt": fmt}
        acc.c["evaluations"] += 1
        acc.c["transitions"] += 2
        try:
            s = x.format(fmt)
            r = pendulum.from_format(s, fmt)
            got = (obs.fields(r), obs.offset_s(r))
        except Exception as e:  # noqa: BLE001
            got = f"raises {type(e).__name__}: {str(e)[:60]}"
        fx = obs.fields(x)
        if fmt == "X":
            u = obs.fields(obs.utc_dt(pendulum, inst - inst % US))
            want = (u, 0)
        elif fmt == "x":
            u = obs.fields(obs.utc_dt(pendulum, inst - inst % 1000))
            want = (u, 0)
        elif fmt == "YYYY Q":
            want = ((fx[0], 3 * ((fx[1] - 1) // 3) + 1, 1, 0, 0, 0, 0), 0)
        elif fmt.startswith("YY-"):
            yy = fx[0] % 100
            want = (((2000 if yy <= 68 else 1900) + yy,) + fx[1:], obs.offset_s(x))     # POSIX pivot, as strptime('%y')
        else:
            want = (fx, obs.offset_s(x))
        if got != want:
            kf = "C08-d-token-numbering" if kf_d_token(fmt, fx, got) else None
            acc.mismatch("from_format", f"extra/{fmt.split(' ')[0] if len(fmt) < 8 else ('d-token' if ' d ' in fmt else fmt[:12])}",
                         case, got, want, kf=kf)


def kf_literal_format(fmt):
    """C08-from-format-literal: from_format() cannot parse a format that contains a [..] literal block or a
    backslash escape (format() renders them): the format is regex-escaped before the tokens are located."""
    return "[" in fmt or "\\" in fmt


def check_defaults(acc, pendulum):
    from pendulum.formatting import Formatter
    fm = Formatter()
    now = pendulum.datetime(2015, 11, 12, 9, 8, 7, 654321)
    cases = [("12:34:56", "HH:mm:ss", {"year": 2015, "month": 11, "day": 12, "hour": 12, "minute": 34, "second": 56}),
             ("05-17", "MM-DD", {"year": 2015, "month": 5, "day": 17}),
             ("17", "D", {"year": 2015, "month": 11, "day": 17}),
             ("March", "MMMM", {"year": 2015, "month": 3, "day": 1}),
             ("1999", "YYYY", {"year": 1999, "month": 1, "day": 1}),
             ("1999 3", "YYYY M", {"year": 1999, "month": 3, "day": 1}),
             ("9 PM", "h A", {"year": 2015, "month": 11, "day": 12, "hour": 21})]
    for text, fmt, want in cases:
        acc.c["evaluations"] += 1
        acc.c["transitions"] += 1
        try:
            r = fm.parse(text, fmt, now)
            got = {k: r[k] for k in want}
        except Exception as e:  # noqa: BLE001
            got = f"raises {type(e).__name__}"
        if got != want:
            acc.mismatch("from_format", "defaults-from-now", {"kind": "def", "text": text, "fmt": fmt}, got, want)
    for text, fmt, want in (("2020-366", "YYYY-DDDD", (2020, 12, 31)), ("2021-365", "YYYY-DDDD", (2021, 12, 31)), ("2021-001", "YYYY-DDDD", (2021, 1, 1)),
                            ("2021-59", "YYYY-DDD", (2021, 2, 28)), ("2000-60", "YYYY-DDD", (2000, 2, 29)), ("1900-60", "YYYY-DDD", (1900, 3, 1)),
                            ("12 PM", "H A", None), ("12 AM", "h A", None)):
        acc.c["evaluations"] += 1
        try:
            r = pendulum.from_format(text, fmt)
            got = [r.year, r.month, r.day] if want else [r.hour]
        except Exception as e:  # noqa: BLE001
            got = f"raises {type(e).__name__}"
        exp = list(want) if want else [12 if "PM" in text else 0]
        if got != exp:
            acc.mismatch("from_format", "day-of-year" if want else "meridiem-12", {"kind": "def", "text": text, "fmt": fmt}, got, exp)
    check_compositions_lmt(acc, pendulum)
    # a REJECTED default locale leaves the accepted one in force for format() / from_format()
    x = pendulum.datetime(2016, 8, 28, 7, 3, 6, 123456)
    for bad in ("tlh", "xx_yy", "e n"):
        orig = pendulum.get_locale()
        pendulum.set_locale("en")
        before = "en"
        try:
            pendulum.set_locale(bad)
            outcome = "accepted"
        except ValueError:
            outcome = "ValueError"
        except Exception as e:  # noqa: BLE001
            outcome = f"raises {type(e).__name__}"
        try:
            got = [outcome, pendulum.get_locale(), x.format("dddd D MMMM YYYY, Do"), pendulum.from_format("Sunday 28 August 2016", "dddd D MMMM YYYY").day]
        except Exception as e:  # noqa: BLE001
            got = [outcome, pendulum.get_locale(), f"raises {type(e).__name__}", None]
        finally:
            pendulum.set_locale(orig)
        acc.c["evaluations"] += 1
        want = ["ValueError", before, "Sunday 28 August 2016, 28th", 28]
        if got != want:
            acc.mismatch("format", "default-locale-after-rejected-set_locale", {"kind": "def", "text": bad, "fmt": "set_locale"}, got, want)
    # localized names are literal text: a name whose final '.' is replaced by another character is not that name
    from pendulum.locales.locale import Locale
    for loc in ("fr", "de", "es", "nl", "pt_br", "da", "nb", "ru"):
        L = Locale.load(loc)
        for key, fmt, mk in (("months.abbreviated", "D {} YYYY", "MMM"), ("days.abbreviated", "{} D MM YYYY", "ddd")):
            names = L.translation(key) or {}
            for idx, name in sorted(names.items())[:12]:
                if not isinstance(name, str) or "." not in name:
                    continue
                bad = name.replace(".", "X")
                text = fmt.format(bad).replace("D", "5").replace("MM", "03").replace("YYYY", "2024")
                acc.c["evaluations"] += 1
                try:
                    r = pendulum.from_format(text, fmt.format(mk), locale=loc)
                    got = f"accepted {r.to_date_string()}"
                except ValueError:
                    got = "ValueError"
                except Exception as e:  # noqa: BLE001
                    got = f"raises {type(e).__name__}"
                if got != "ValueError":
                    acc.mismatch("from_format", "non-matching/name-with-dot", {"kind": "def", "text": text, "fmt": fmt.format(mk), "loc": loc}, got, "ValueError")
    # the public entry point: its 'now' is the current time IN THE REQUESTED ZONE.  The two zones are 26 hours apart, so at
    # any moment at least one of them is on another calendar day than the machine's zone; the clock is read before and
    # after the call and the case only judged when no midnight fell in between (the one place the real clock is consulted)
    import datetime as dt_
    import zoneinfo
    for zn in ("Pacific/Kiritimati", "Etc/GMT+12", "UTC"):
        for tzarg in (zn, pendulum.timezone(zn)):
            zi = zoneinfo.ZoneInfo(zn)
            d0 = dt_.datetime.now(zi).date()
            try:
                r = pendulum.from_format("12:34:56", "HH:mm:ss", tz=tzarg)
                got = [r.year, r.month, r.day, r.hour, r.minute, r.second, r.timezone_name]
            except Exception as e:  # noqa: BLE001
                got = f"raises {type(e).__name__}"
            d1 = dt_.datetime.now(zi).date()
            acc.c["evaluations"] += 1
            if d0 != d1:
                acc.c["skipped_midnight_during_call"] += 1
                continue
            want = [d0.year, d0.month, d0.day, 12, 34, 56, zn]
            if got != want:
                acc.mismatch("from_format", "defaults-from-now-in-zone", {"kind": "def", "text": "12:34:56", "fmt": "HH:mm:ss", "tz": zn},
                             got, want)
    for text, fmt in (("2020-13-01", "YYYY-MM-DD"), ("2020-02-30", "YYYY-MM-DD"), ("20-02-2020x", "DD-MM-YYYY"), ("abc", "YYYY"),
                      ("2020-01-01", "YYYY/MM/DD"), ("13:00 PM", "hh:mm A"), ("25:00", "HH:mm"), ("Foo 2020", "MMMM YYYY"),
                      ("2020-01-01 Europe/Nowhere", "YYYY-MM-DD z"), ("", "YYYY"), ("2020", ""),
                      # an hour above 12 next to a meridiem; text the format does not carry (a final newline); days that the
                      # year does not have
                      ("13 PM", "H A"), ("13:00 PM", "H:mm A"), ("2020-01-01\n", "YYYY-MM-DD"), ("\n2020-01-01", "YYYY-MM-DD"),
                      ("2021-366", "YYYY-DDDD"), ("1900-366", "YYYY-DDDD"), ("2021-000", "YYYY-DDDD"), ("2021-400", "YYYY-DDDD"),
                      ("2020-367 10:30", "YYYY-DDD HH:mm"), ("2021-0", "YYYY-DDD"), ("2021-02-29", "YYYY-MM-DD"), ("2021-04-31 00", "YYYY-MM-DD HH")):
        acc.c["evaluations"] += 1
        try:
            r = pendulum.from_format(text, fmt)
            got = f"accepted {r}"
        except ValueError:
            got = "ValueError"
        except Exception as e:  # noqa: BLE001
            got = f"raises {type(e).__name__}"
        if got != "ValueError":
            acc.mismatch("from_format", "non-matching", {"kind": "nm", "text": text, "fmt": fmt}, got, "ValueError")


def value_grid(thorough, seed):
    out = []
    years = (1000, 1969, 1970, 1971, 1999, 2000, 2001, 2020, 2024, 9999) if thorough else (1000, 1970, 1999, 2000, 2024, 9999)
    for y in years:
        for m, d in ((1, 1), (2, 28), (3, 1), (7, 4 + seed % 20), (10, 31), (12, 31)):
            if y == 9999 and (m, d) == (12, 31):
                d = 30
            out.append((y, m, d))
    out.append((2024, 2, 29))
    out.append((2021, 1, 3))
    return out


TIMES = [(0, 0, 0, 0), (12, 30, 15, 123456), (23, 59, 59, 999999), (13, 5, 9, 50)]


FRACTION_TOKENS = ("S", "SS", "SSS", "SSSS", "SSSSS", "SSSSSS")


def check_fraction(acc, pendulum, width, v):
    """One fraction value of `width` digits: format() renders exactly those digits, from_format() reads them back."""
    tok = FRACTION_TOKENS[width - 1]
    us = v * 10 ** (6 - width)
    digits = "%0*d" % (width, v)
    x = pendulum.DateTime(2019, 7, 14, 16, 5, 9, us, tzinfo=pendulum.UTC)
    case = {"kind": "frac", "width": width, "v": v}
    acc.c["evaluations"] += 2
    acc.c["transitions"] += 2
    got = x.format(tok)
    if got != digits:
        acc.mismatch("token", f"{tok}/every-fraction", case, got, digits)
    try:
        r = pendulum.from_format(f"2019-07-14 16:05:09.{digits} +02:00", f"YYYY-MM-DD HH:mm:ss.{tok} Z")
        back = [list(obs.fields(r)), obs.offset_s(r)]
    except Exception as e:  # noqa: BLE001
        back = f"raises {type(e).__name__}"
    want = [[2019, 7, 14, 16, 5, 9, us], 7200]
    if back != want:
        acc.mismatch("from_format", f"{tok}/every-fraction", case, back, want)


def run_shard(shard):
    import pendulum
    acc = core.Acc(ID)
    k = shard["kind"]
    if k == "fractions":
        w = shard["width"]
        for v in range(shard["v0"], shard["v1"], shard["step"]):
            check_fraction(acc, pendulum, w, v)
        for v in shard.get("also", []):
            check_fraction(acc, pendulum, w, v)
        acc.c["states"] += 1
        acc.c["nontrivial"] += (shard["v1"] - shard["v0"]) // shard["step"]
        acc.sample({"fraction_width": w, "values": [shard["v0"], shard["v1"], shard["step"]]})
        return acc.result()
    if k == "tokens":
        for z in shard["zones"]:
            for (y, m, d) in shard["dates"]:
                for t in TIMES:
                    f = (y, m, d) + t
                    acc.c["states"] += 1
                    for loc in shard["locales"]:
                        with worker.guarded(acc, "token", {"kind": "tok", "z": z, "f": list(f), "loc": loc}, 30):
                            check_tokens(acc, pendulum, z, f, loc, pairs=False)
                    with worker.guarded(acc, "named", {"kind": "named", "z": z, "f": list(f)}):
                        check_named(acc, pendulum, z, f)
        acc.sample({"zone": str(shard["zones"][0]), "tokens": TOKENS, "locales": shard["locales"]})
    elif k == "pairs":
        for z, f in shard["values"]:
            acc.c["states"] += 1
            acc.c["nontrivial"] += 1
            check_tokens(acc, pendulum, z, tuple(f), shard["loc"], pairs=True)
        acc.sample({"token_pairs": f"{len(TOKENS)}^2 x {len(SEPS)} separators", "locale": shard["loc"]})
    elif k == "roundtrip":
        for z in shard["zones"]:
            for (y, m, d) in shard["dates"]:
                for t in TIMES[1:3]:
                    f = (y, m, d) + t
                    if not (1000 <= y <= 9998):
                        continue
                    acc.c["states"] += 1
                    if shard["time_parts"][0] == TIME_PARTS[0] and z is not None:
                        for fmt in LITERAL_FMTS:
                            if isinstance(z, int) and fmt.endswith(" z"):
                                continue
                            check_roundtrip(acc, pendulum, z, f, "en", fmt, True)
                    for dp in DATE_PARTS:
                        for tp in shard["time_parts"]:
                            for fr in FRACS:
                                for tzp in TZS:
                                    fmt = dp + " " + tp + fr + tzp
                                    if "[" in fmt and fr != ".SSSSSS":
                                        continue
                                    full = fr == ".SSSSSS" and tzp != ""
                                    if z is None and tzp != "":
                                        continue
                                    if isinstance(z, int) and tzp == " z":
                                        continue
                                    for loc in shard["locales"]:
                                        with worker.guarded(acc, "from_format", {"kind": "rt", "z": z, "f": list(f), "loc": loc, "fmt": fmt}):
                                            check_roundtrip(acc, pendulum, z, f, loc, fmt, full)
                                        acc.c["nontrivial"] += 1
        acc.sample({"roundtrip_format": DATE_PARTS[3] + " " + TIME_PARTS[2] + ".SSSSSS Z", "zones": [str(z) for z in shard["zones"]]})
    elif k == "hours":
        # every hour of the day (the 12-hour clock folds 24 values onto 12 + meridiem) x every time spelling
        for z in shard["zones"]:
            for (y, m, d) in ((2021, 3, 9), (2024, 2, 29)):
                for hour in range(24):
                    for mi, sec, us in ((0, 0, 0), (59, 59, 999999)):
                        f = (y, m, d, hour, mi, sec, us)
                        acc.c["states"] += 1
                        for tp in TIME_PARTS:
                            for dp in (DATE_PARTS[0], DATE_PARTS[5]):
                                fmt = dp + " " + tp + ".SSSSSS" + (" Z" if z is not None else "")
                                with worker.guarded(acc, "from_format", {"kind": "rt", "z": z, "f": list(f), "loc": "en", "fmt": fmt}):
                                    check_roundtrip(acc, pendulum, z, f, "en", fmt, z is not None)
                                acc.c["nontrivial"] += 1
                        with worker.guarded(acc, "from_format", {"kind": "xt", "z": z, "f": list(f)}):
                            check_extra(acc, pendulum, z, f)
        acc.sample({"roundtrip_all_hours": DATE_PARTS[0] + " " + TIME_PARTS[3] + ".SSSSSS Z", "hours": "0..23"})
    elif k == "locales":
        f = (2021, shard["month"], 7, 15, 4, 5, 123456)
        for loc in c18.LOCALES:
            for day in range(7, 14):
                ff = (2021, shard["month"], day) + f[3:]
                acc.c["states"] += 1
                for fmt in ("dddd D MMMM YYYY HH:mm:ss.SSSSSS Z", "ddd, D MMM YYYY HH:mm:ss.SSSSSS ZZ", "dd D MMMM YYYY H:m:s.SSSSSS z",
                            # a name as the LAST thing in the string, and names written directly against their neighbours
                            "HH:mm:ss.SSSSSS Z D MMMM YYYY dddd", "HH:mm:ss.SSSSSS Z YYYY-DD MMMM", "YYYY-MM-DD HH:mm:ss.SSSSSS Z ddd",
                            "DDMMMMYYYY HH:mm:ss.SSSSSS Z", "ddddDD/MM/YYYY HH:mm:ss.SSSSSS Z"):
                    check_roundtrip(acc, pendulum, "Europe/Paris", ff, loc, fmt, True)
                check_tokens(acc, pendulum, "Asia/Kolkata", ff, loc)
        # ordinal tokens over their whole ranges: every day of this month in the leap year 2024 (DDDo 1..366 over the
        # twelve month shards, Do 1..31, and Mo / Qo / wo as they come) in every locale
        import calendar as _cal
        for loc in c18.LOCALES:
            for day in range(1, _cal.monthrange(2024, shard["month"])[1] + 1):
                nat = dt_.datetime(2024, shard["month"], day, 12, 0, 0)
                x = pendulum.DateTime(2024, shard["month"], day, 12, 0, 0)
                for tok in ("DDDo", "Do", "Mo", "Qo", "wo"):
                    acc.c["evaluations"] += 1
                    acc.c["transitions"] += 1
                    want = _ord_expected(tok, nat, loc)
                    try:
                        got = x.format(tok, locale=loc)
                    except Exception as e:  # noqa: BLE001
                        got = f"raises {type(e).__name__}"
                    if got != want:
                        acc.mismatch("token", f"{tok}/ordinal-range", {"kind": "ord", "loc": loc, "m": shard["month"], "d": day, "tok": tok}, got, want)
        check_defaults(acc, pendulum)
        acc.sample({"localized_roundtrip": "dddd D MMMM YYYY HH:mm:ss.SSSSSS Z", "locales": 27})
    return acc.result()


def replay_case(case, acc):
    import pendulum
    k = case["kind"]
    if k == "tok":
        check_tokens(acc, pendulum, case["z"], tuple(case["f"]), case["loc"], pairs=("fmt" in case))
    elif k == "named":
        check_named(acc, pendulum, case["z"], tuple(case["f"]))
    elif k == "ord":
        nat = dt_.datetime(2024, case["m"], case["d"], 12, 0, 0)
        got = pendulum.DateTime(2024, case["m"], case["d"], 12, 0, 0).format(case["tok"], locale=case["loc"])
        want = _ord_expected(case["tok"], nat, case["loc"])
        if got != want:
            acc.mismatch("token", f"{case['tok']}/ordinal-range", case, got, want)
    elif k == "frac":
        check_fraction(acc, pendulum, case["width"], case["v"])
    elif k == "xt":
        check_extra(acc, pendulum, case["z"], tuple(case["f"]))
    elif k == "rt":
        for full in (True, False):
            check_roundtrip(acc, pendulum, case["z"], tuple(case["f"]), case["loc"], case["fmt"], full)
    else:
        check_defaults(acc, pendulum)


def plan(tier, seed):
    thorough = tier == "thorough"
    dates = value_grid(thorough, seed)
    zones = ["UTC", "Europe/Paris", "America/New_York", "Asia/Kolkata", "Asia/Kathmandu", "America/St_Johns",
             "Australia/Lord_Howe", "Pacific/Apia", "America/Argentina/Buenos_Aires", None, 19800, -12600, -34200, -60, 86340,
             -86340] + [z for z in seeds.witness_zones(seed, 3)[-3:]]
    locs = ["en", "fr", "ru", "ja", "he"] if not thorough else list(c18.LOCALES)
    shards = [{"kind": "tokens", "zones": [z], "dates": dates, "locales": locs} for z in zones]
    vals = [("Europe/Paris", (2024, 2, 29, 13, 5, 9, 50)), ("America/St_Johns", (1999, 12, 31, 23, 59, 59, 999999)),
            (None, (1000, 1, 1, 0, 0, 0, 0)), (-12600, (2021, 1, 3, 12, 30, 15, 123456))]
    for loc in (["en", "fr"] if not thorough else list(c18.LOCALES)):
        for v in vals:
            shards.append({"kind": "pairs", "values": [v], "loc": loc})
    rz = ["UTC", "Europe/Paris", "America/St_Johns", "Asia/Kathmandu", "America/Argentina/Buenos_Aires", 19800, -12600, -60, None]
    for z in rz:
        for tp in TIME_PARTS:
            shards.append({"kind": "roundtrip", "zones": [z], "dates": dates,
                           "time_parts": [tp], "locales": ["en"] if not thorough else ["en", "de", "pl"]})
    for z in rz:
        shards.append({"kind": "hours", "zones": [z]})
    for month in range(1, 13):
        shards.append({"kind": "locales", "month": month})
    # every fraction value of 1..5 digits, and of 6 digits every value (thorough) / a seed-rotated seventh plus the
    # values below 2000 (quick), through format() and from_format()
    for w in (1, 2, 3, 4):
        shards.append({"kind": "fractions", "width": w, "v0": 0, "v1": 10 ** w, "step": 1})
    for lo in range(0, 10 ** 5, 25000):
        shards.append({"kind": "fractions", "width": 5, "v0": lo, "v1": lo + 25000, "step": 1})
    for lo in range(0, 10 ** 6, 62500):
        shards.append({"kind": "fractions", "width": 6, "v0": lo + (0 if thorough else seed % 7), "v1": lo + 62500,
                       "step": 1 if thorough else 7, "also": list(range(0, 2000)) if lo == 0 and not thorough else []})
    return [({"ext": 1, "tz": "sys"}, shards)] + ([({"ext": 0, "tz": "sys"}, shards)] if thorough else [])


def evidence(m, tier, seed):
    c = m.c
    return {"coverage": {
        "evaluations": c["evaluations"], "states": c["states"], "transitions": c["transitions"],
        "traces_validated_against_impl": c["transitions"],
        "distinct_nontrivial": c["nontrivial"],
        "rule": "state = (zone, wall fields): years {1000, 1970, 1999, 2000, 2024, 9999} (thorough +4) x 6 month/day edges x "
                "4 times x 19 zones/offsets (incl. negative sub-hour offsets, 3-part zone name, naive); each state x 47 "
                "documented tokens x 5 locales (thorough 27) + 16 named helpers + literal/escape formats; all 47^2 ordered "
                "token pairs x 6 separators on 4 values x 2 locales; from_format(format()) over the grammar 10 date parts x "
                "5 time parts x 5 fraction widths x {Z, ZZ, z, none}; every hour 0..23 x 2 minute/second settings x 5 time parts "
                "x 9 zones, each also through X, x, YY, E, d, DDDD, DDD, Q and a long English format; localized month/day names x 27 locales x 12 months x "
                "7 weekdays; defaults from an injected now; non-matching strings; non-trivial = round-trip formats and "
                "token-pair batches",
        "exhaustive": True,
        "skipped_sub_minute_offset": c["skipped_sub_minute_offset"],
    }, "assumptions": ["localized names are read from the locale data files; English ordinals from the English rule",
                       "from_format inversion is asserted for formats with date+time(+fraction)(+offset/zone); X/x "
                       "timestamps are only rendered, not inverted"]}
