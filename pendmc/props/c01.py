"""C01 - timezone conversion preserves the instant and matches the tz database.

States     : (instant, zone) with instants at P(t) around every offset transition of the zone + a grid.
Operations : depth 1 from the UTC seed: in_timezone(obj) / in_tz(name) / astimezone(obj) /
             from_timestamp(int|float) / DateTime.fromtimestamp / Timezone.convert(native) /
             instance(native in kinds zoneinfo, pytz, dateutil, datetime.timezone, pendulum Timezone);
             depth 2: A -> W for every intermediate W (witness zones + the two fixed offsets that
             collide with the transition's own offsets) and A -> UTC;
             depth 3: A -> W -> A' (must equal A) and A -> W -> W2 (must equal UTC -> W2).
Oracle     : tzref rendering of the instant (fields, offset), requested zone name, instant preserved to
             the microsecond (derived from fields and utcoffset(), so a wrong fold on a repeated wall time
             shows as a wrong instant), int_timestamp/timestamp(), and observational equality of all
             implementation states that share one model state.
"""
from __future__ import annotations

import datetime as dt_
import zoneinfo

from .. import worker
from .. import core, obs, seeds
from ..ref import tzref

ID = "C01"
US = 1_000_000
_TZ = {}
_ZI = {}
_PYTZ = {}
_DU = {}


def _tz(pendulum, z):
    t = _TZ.get(z)
    if t is None:
        t = _TZ[z] = pendulum.timezone(z)
    return t


def _zi(z):
    t = _ZI.get(z)
    if t is None:
        t = _ZI[z] = zoneinfo.ZoneInfo(z)
    return t


def _pytz(z):
    if z not in _PYTZ:
        import pytz
        try:
            _PYTZ[z] = pytz.timezone(z)
        except Exception:  # noqa: BLE001
            _PYTZ[z] = None
    return _PYTZ[z]


def _dateutil(z):
    if z not in _DU:
        from dateutil import tz as dtz
        _DU[z] = dtz.gettz(z)
    return _DU[z]


def _zname(z):
    if isinstance(z, int):
        sign = "-" if z < 0 else "+"
        h, m = divmod(abs(int(z / 60)), 60)
        return f"{sign}{h:02d}:{m:02d}"
    return z


def verify(acc, pendulum, r, z, inst, sub, case, name=True, ts=False):
    """Compare one reached state with the model state (inst, z)."""
    exp_f, exp_o = obs.expected_render(z, inst)
    got_f, got_o = obs.fields(r), obs.offset_s(r)
    acc.c["transitions"] += 1
    if (got_f, got_o) != (exp_f, exp_o):
        gi = obs.wall_us(got_f) - (got_o or 0) * US
        cls = "instant" if gi != inst else "rendering"
        acc.mismatch(sub, cls, case, {"fields": got_f, "offset": got_o, "instant_error_us": gi - inst},
                     {"fields": exp_f, "offset": exp_o})
        return False
    if name:
        want = _zname(z)
        got = r.timezone_name
        if got != want:
            acc.mismatch(sub, "zone-name", case, got, want)
            return False
    if type(r) is not pendulum.DateTime:
        acc.mismatch(sub, "type", case, type(r).__name__, "DateTime")
    # the library's own spellings of the UTC offset
    acc2 = (r.offset, r.get_offset(), r.offset_hours, r.is_utc())
    want2 = (exp_o, exp_o, exp_o / 60 / 60, exp_o == 0)
    if acc2 != want2:
        acc.mismatch(sub, "offset-accessors", case, list(acc2), list(want2))
    if ts:
        if r.float_timestamp != inst / US:
            acc.mismatch(sub, "float_timestamp", case, r.float_timestamp, inst / US)
        it = r.int_timestamp
        if it != inst // US:
            acc.mismatch(sub, "int_timestamp", case, it, inst // US)
        ft = r.timestamp()
        if ft != inst / US:
            acc.mismatch(sub, "timestamp", case, ft, inst / US)
    return True


def kf_pytz_second_pass(z, inst, r):
    """C01-pytz-second-pass: instance() of a pytz-aware datetime that lies in the second pass of an
    overlap is re-read with fold=0: fields are right, the instant is the earlier solution."""
    if isinstance(z, int):
        return False
    exp_f, exp_o = obs.expected_render(z, inst)
    sols = tzref.zone(z).solve(obs.wall_us(exp_f) // US)
    if len(sols) != 2 or inst // US != sols[1]:
        return False
    return obs.fields(r) == exp_f and obs.instant_us(r) // US == sols[0]


def check_native_walls(acc, pendulum, z, tr):
    """instance() of an aware NATIVE datetime whose wall time is skipped or repeated in its zone (either fold): the instant
    it denotes is wall - tzinfo.utcoffset() (PEP 495: the offset before the change for fold 0, after it for fold 1);
    the tzinfo is pendulum's own Timezone, or zoneinfo's."""
    t, ob, oa = tr
    for w in seeds.wall_probes(t, ob, oa):
        f = seeds.fields_of_wall(w)
        if not (2 <= f[0] <= 9998):
            continue
        for fold in (0, 1):
            sols = tzref.zone(z).solve(w // US)
            if len(sols) == 1:
                off = sols[0]
            elif len(sols) == 2:
                off = sorted(sols, reverse=True)[fold]         # repeated: first pass carries the larger offset
            else:
                off = ob if fold == 0 else oa                  # skipped
            inst = w - off * US
            exp = obs.expected_render(z, inst)
            for kname, ktz in (("pendulum", _tz(pendulum, z)), ("zoneinfo", _zi(z))):
                nk = dt_.datetime(*f, tzinfo=ktz, fold=fold)
                if nk.utcoffset() != dt_.timedelta(seconds=off):
                    acc.c["skipped_db_mismatch"] += 1
                    continue
                case = {"kind": "nwall", "z": z, "tr": list(tr), "wall": w, "fold": fold, "tzkind": kname}
                try:
                    r = pendulum.instance(nk)
                    got = (obs.fields(r), obs.offset_s(r))
                except Exception as e:  # noqa: BLE001
                    got = f"raises {type(e).__name__}"
                acc.c["transitions"] += 1
                if got != exp:
                    acc.mismatch(f"instance(native-wall/{kname})", "instant" if len(sols) != 1 else "rendering", case,
                                 got, list(exp))


class _Hours(int):
    pass


class _FloatHours(float):
    pass


_ENUMS = {}


def _hours_enum(h):
    import enum
    if h not in _ENUMS:
        _ENUMS[h] = enum.IntEnum("Offset", {"ZONE": h}).ZONE
    return _ENUMS[h]


def explore_state(acc, pendulum, z, inst, inter, deep=True, kinds=True):
    """All operations from the model state (inst, z)."""
    tzobj = _tz(pendulum, z)
    u = obs.utc_dt(pendulum, inst)
    nu = obs.native_utc(inst)
    base = {"kind": "state", "z": z, "inst": inst}
    acc.c["evaluations"] += 1
    # ---------------- depth 1: every route from UTC to (inst, z)
    routes = []
    a = u.in_timezone(tzobj)
    routes.append(("in_timezone(obj)", a))
    if not isinstance(z, int):
        routes.append(("in_tz(name)", u.in_tz(z)))
    routes.append(("astimezone(obj)", u.astimezone(tzobj)))
    s, us = divmod(inst, US)
    if us == 0:
        routes.append(("from_timestamp(int)", pendulum.from_timestamp(s, tz=tzobj if isinstance(z, int) else z)))
        routes.append(("fromtimestamp(int)", pendulum.DateTime.fromtimestamp(s, tzobj)))
    if us == 0 or abs(s) < (1 << 31):
        routes.append(("from_timestamp(float)", pendulum.from_timestamp(inst / US, tz=tzobj)))
    routes.append(("instance(pendulum-native)", pendulum.instance(nu.astimezone(tzobj))))
    if isinstance(z, int) and z % 60 == 0:
        # the target given as a NUMBER of hours (int for whole hours, else float: -3.5, 5.75, -23.983...)
        hz = z // 3600 if z % 3600 == 0 else z / 3600
        routes.append(("in_timezone(hours)", u.in_timezone(hz)))
        routes.append(("in_tz(hours)", u.in_tz(hz)))
        if us == 0:
            routes.append(("from_timestamp(int,tz=hours)", pendulum.from_timestamp(s, tz=hz)))
        routes.append(("instance(native-utc,tz=hours)->in_tz", pendulum.instance(nu).in_tz(hz)))
        if z % 3600 == 0:
            # ... as a member of an IntEnum / an instance of a user subclass of int
            routes.append(("in_timezone(int-subclass hours)", u.in_timezone(_Hours(z // 3600))))
            routes.append(("in_tz(IntEnum hours)", u.in_tz(_hours_enum(z // 3600))))
        else:
            routes.append(("in_timezone(float-subclass hours)", u.in_timezone(_FloatHours(z / 3600))))
    conv = tzobj.convert(nu)
    routes.append(("Timezone.convert(native)", conv))
    keys = set()
    for name, r in routes:
        case = dict(base, op=name)
        if isinstance(r, pendulum.DateTime):
            if verify(acc, pendulum, r, z, inst, name, case, ts=(name == "in_timezone(obj)")):
                keys.add(obs.obs_key(r))
        else:
            acc.c["transitions"] += 1
            got = (obs.fields(r), obs.offset_s(r))
            if got != obs.expected_render(z, inst):
                acc.mismatch(name, "rendering", case, got, obs.expected_render(z, inst))
    if len(keys) > 1:
        acc.mismatch("route-independence", "depth1", base, sorted(map(str, keys)), "one observable state")
    acc.c["impl_states"] += len(keys)
    # a fixed-offset target built by the caller with its OWN name: the result reports that zone (name included)
    if isinstance(z, int) or deep:
        off = z if isinstance(z, int) else obs.expected_render(z, inst)[1]
        named = pendulum.FixedTimezone(off, name="XST")
        exp_named = obs.expected_render(off, inst)
        for name, fn in (("in_timezone(named-fixed)", lambda: u.in_timezone(named)), ("in_tz(named-fixed)", lambda: u.in_tz(named)),
                         ("from_timestamp(named-fixed)", lambda: pendulum.from_timestamp(inst / US, tz=named)),
                         ("instance(native-with-named-fixed)", lambda: pendulum.instance(nu.astimezone(named))),
                         ("chain-to-named-fixed", lambda: a.in_timezone(named))):
            if "from_timestamp" in name and not (us == 0 or abs(s) < (1 << 31)):
                continue
            try:
                r = fn()
                got = [obs.fields(r), obs.offset_s(r), r.timezone_name, r.tzname()]
            except Exception as e:  # noqa: BLE001
                got = f"raises {type(e).__name__}"
            acc.c["transitions"] += 1
            want = [exp_named[0], exp_named[1], "XST", "XST"]
            if got != want:
                acc.mismatch(name, "named-fixed-target", dict(base, op=name), got, want)
    # astimezone() without an argument: the process's local zone (the harness pins TZ=UTC)
    try:
        xl = a.astimezone()
        gotl = (obs.fields(xl), obs.offset_s(xl), type(xl) is pendulum.DateTime)
    except Exception as e:  # noqa: BLE001
        gotl = f"raises {type(e).__name__}"
    acc.c["transitions"] += 1
    wl = obs.expected_render("UTC", inst)
    if gotl != (wl[0], wl[1], True):
        acc.mismatch("astimezone()", "local-zone", dict(base, op="astimezone()"), gotl, [wl[0], wl[1], True])
    # foreign tzinfo kinds as sources of instance()
    if kinds:
        exp_f, exp_o = obs.expected_render(z, inst)
        srcs = []
        if isinstance(z, int):
            srcs.append(("timezone", dt_.timezone(dt_.timedelta(seconds=z)), z))
        else:
            srcs.append(("zoneinfo", _zi(z), z))
            srcs.append(("timezone", dt_.timezone(dt_.timedelta(seconds=exp_o)), exp_o))
            if _pytz(z) is not None:
                srcs.append(("pytz", _pytz(z), z))
            if _dateutil(z) is not None:
                srcs.append(("dateutil", _dateutil(z), exp_o))
            # a DST-aware tzinfo without a key (hand-written / dateutil-like): kept as the offset in force
            from .. import foreign
            srcs.append(("keyless", foreign.keyless(z), exp_o))
        # fixed offsets in the other spellings: a stdlib timezone carrying a name that other offsets carry too, and pytz's
        off = z if isinstance(z, int) else exp_o
        from .. import foreign
        srcs.append(("timezone-named", foreign.named_fixed(off), off))
        if off % 60 == 0 and abs(off) < 86400:
            try:
                import pytz
                srcs.append(("pytz-fixed", pytz.FixedOffset(off // 60), off))
            except ImportError:
                pass
        for kname, ktz, target in srcs:
            try:
                nk = nu.astimezone(ktz)
            except Exception:  # noqa: BLE001
                acc.c["skipped_foreign_error"] += 1
                continue
            if obs.offset_s(nk) != exp_o:
                acc.c["skipped_db_mismatch"] += 1   # the foreign database disagrees: not pendulum's premise
                continue
            r = pendulum.instance(nk)
            case = dict(base, op=f"instance({kname})")
            exp_ff, exp_oo = obs.expected_render(target, inst)
            got = (obs.fields(r), obs.offset_s(r))
            acc.c["transitions"] += 1
            if got != (exp_ff, exp_oo):
                kf = "C01-pytz-second-pass" if kname == "pytz" and kf_pytz_second_pass(z, inst, r) else None
                acc.mismatch(f"instance({kname})", "instant" if obs.instant_us(r) != inst else "rendering",
                             case, {"fields": got[0], "offset": got[1]},
                             {"fields": exp_ff, "offset": exp_oo}, kf=kf)
            elif kname in ("zoneinfo", "pytz") and r.timezone_name != z:
                acc.mismatch(f"instance({kname})", "zone-name", case, r.timezone_name, z)
            if kname == "pytz":
                # a pytz zone as TARGET of astimezone(): fromutc() answers with a per-offset tzinfo instance
                try:
                    xp = a.astimezone(ktz)
                    gotp = (obs.fields(xp), obs.offset_s(xp))
                except Exception as e:  # noqa: BLE001
                    gotp = f"raises {type(e).__name__}"
                acc.c["transitions"] += 1
                if gotp != (exp_ff, exp_oo):
                    acc.mismatch("astimezone(pytz)", "rendering", dict(base, op="astimezone(pytz)"), gotp, [exp_ff, exp_oo])
                continue
            # aware DateTimes that carry a FOREIGN tzinfo (results of astimezone(<stdlib tz>), fromisoformat, the
            # constructor) as receivers of the conversions
            recvs = [("astimezone(foreign)", lambda: a.astimezone(ktz)),
                     ("DateTime(tzinfo=foreign)", lambda: pendulum.DateTime(*obs.fields(nk), tzinfo=ktz, fold=nk.fold))]
            if kname == "timezone" and exp_o % 60 == 0 and obs.fields(nk)[0] >= 1000:
                recvs.append(("fromisoformat", lambda: pendulum.DateTime.fromisoformat(nk.isoformat())))
            for rname, mkr in recvs:
                try:
                    x = mkr()
                except Exception as e:  # noqa: BLE001
                    acc.mismatch(f"foreign-receiver/{rname}", f"raises-{type(e).__name__}", dict(base, op=rname, foreign=kname),
                                 type(e).__name__, "an aware DateTime")
                    continue
                acc.c["transitions"] += 1
                # ... and as the argument of instance() (what the operators of a subclass instance do with their operand)
                try:
                    xi = pendulum.DateTime.instance(x)
                    goti = (obs.fields(xi), obs.offset_s(xi))
                except Exception as e:  # noqa: BLE001
                    goti = f"raises {type(e).__name__}"
                if goti != (exp_ff, exp_oo):
                    acc.mismatch(f"foreign-receiver/{rname}", "instance-of-it", dict(base, op=rname, foreign=kname), goti, [exp_ff, exp_oo])
                if (obs.fields(x), obs.offset_s(x)) != (exp_ff, exp_oo) or type(x) is not pendulum.DateTime:
                    acc.mismatch(f"foreign-receiver/{rname}", "rendering", dict(base, op=rname, foreign=kname),
                                 {"fields": obs.fields(x), "offset": obs.offset_s(x), "type": type(x).__name__},
                                 {"fields": exp_ff, "offset": exp_oo})
                    continue
                for w in [z, "UTC"] + list(inter[:2]):
                    for cname, fn in (("in_timezone", lambda: x.in_timezone(_tz(pendulum, w))),
                                      ("in_tz", (lambda: x.in_tz(w)) if not isinstance(w, int) else None)):
                        if fn is None:
                            continue
                        case = dict(base, op=f"{rname}->{cname}", foreign=kname, w=w)
                        try:
                            r2 = fn()
                        except Exception as e:  # noqa: BLE001
                            acc.mismatch(f"foreign-receiver->{cname}", f"raises-{type(e).__name__}", case, type(e).__name__,
                                         "converted value")
                            continue
                        verify(acc, pendulum, r2, w, inst, f"foreign-receiver->{cname}", case)
    if not deep:
        return
    # ---------------- depth 2 and 3
    back = a.in_timezone(pendulum.UTC)
    verify(acc, pendulum, back, "UTC", inst, "A->UTC", dict(base, op="A->UTC"))
    prev_w = None
    for w in inter:
        wobj = _tz(pendulum, w)
        b = a.in_timezone(wobj)
        case = dict(base, op="A->W", w=w)
        if not verify(acc, pendulum, b, w, inst, "A->W", case):
            continue
        # direct route U->W must be observationally equal to A->W
        d = u.in_timezone(wobj)
        acc.c["transitions"] += 1
        if obs.obs_key(d) != obs.obs_key(b):
            acc.mismatch("A->B->C=A->C", "UTC->A->W vs UTC->W", case, obs.obs_key(b), obs.obs_key(d))
        c = b.in_timezone(tzobj)
        verify(acc, pendulum, c, z, inst, "A->W->A", dict(base, op="A->W->A", w=w))
        if obs.obs_key(c) != obs.obs_key(a) and (obs.fields(c), obs.offset_s(c)) == (obs.fields(a), obs.offset_s(a)):
            acc.mismatch("A->W->A", "fold-or-name", dict(base, op="A->W->A", w=w), obs.obs_key(c),
                         obs.obs_key(a))
        if prev_w is not None:
            e = b.in_timezone(_tz(pendulum, prev_w))
            verify(acc, pendulum, e, prev_w, inst, "A->W->W2", dict(base, op="A->W->W2", w=w, w2=prev_w))
        prev_w = w


def _inter_for(z, t_ob_oa, witness):
    inter = list(witness)
    if t_ob_oa is not None:
        _, ob, oa = t_ob_oa
        for o in (ob, oa):
            if o not in inter and abs(o) < 86400:
                inter.append(o)
    return [w for w in inter if w != z]


LOCAL_INSTANTS = [951782400 * US, 1616893200 * US - 1, -1234567 * US, 4102444800 * US + 5]


def local_step(acc, pendulum, history, replaying):
    """Set the local timezone to history[-1] (after history[:-1] when replaying) and convert to 'local'."""
    for z in (history if replaying else history[-1:]):
        pendulum.set_local_timezone(_tz(pendulum, z))
    z = history[-1]
    for inst in LOCAL_INSTANTS:
        u = obs.utc_dt(pendulum, inst)
        base = {"kind": "local", "history": history, "z": z, "inst": inst}
        acc.c["evaluations"] += 1
        verify(acc, pendulum, u.in_timezone("local"), z, inst, "in_timezone('local')", dict(base, op="in_timezone('local')"))
        verify(acc, pendulum, u.in_tz("local"), z, inst, "in_tz('local')", dict(base, op="in_tz('local')"))
        s_ = inst // US
        verify(acc, pendulum, pendulum.from_timestamp(s_, tz="local"), z, s_ * US, "from_timestamp(tz='local')",
               dict(base, op="from_timestamp(tz='local')"))
        verify(acc, pendulum, pendulum.DateTime.fromtimestamp(s_ + 0.25, pendulum.local_timezone()), z, s_ * US + 250000,
               "fromtimestamp(local_timezone())", dict(base, op="fromtimestamp(local_timezone())"))


TZ_SPELLINGS = (("Europe/Paris", "Europe/Paris"), (":Europe/Paris", "Europe/Paris"), (":America/New_York", "America/New_York"),
                ("/usr/share/zoneinfo/Asia/Tokyo", "Asia/Tokyo"), (":/usr/share/zoneinfo/Australia/Lord_Howe", "Australia/Lord_Howe"))


def check_local_env(acc, pendulum, spelling, zone):
    """Runs in a process STARTED with TZ=<spelling>: the library finds the machine's zone by itself (no mock).  Conversions
    to 'local' render the instant as that zone does (the zone's name is only asserted for the name spellings: a zone read
    from a file path has none)."""
    trs = [tr for tr in seeds.zone_transitions(zone) if 0 < tr[0] < 2000000000][-4:]
    insts = [p for tr in trs for p in seeds.probe_instants(*tr, full=False)] + seeds.grid_instants(370)[4:8] + [-86400 * 365 * 30 * US + 250000]
    tokyo = pendulum.timezone("Asia/Kolkata")
    for inst in insts:
        u = obs.utc_dt(pendulum, inst)
        exp = obs.expected_render(zone, inst)
        acc.c["states"] += 1
        for name, fn in (("in_timezone('local')", lambda: u.in_timezone("local")), ("in_tz('local')", lambda: u.in_tz("local")),
                         ("chain->local", lambda: u.in_timezone(tokyo).in_timezone("local")),
                         ("from_timestamp(local)", lambda: pendulum.from_timestamp(inst / US, "local")),
                         ("local_timezone().convert", lambda: pendulum.local_timezone().convert(obs.native_utc(inst)))):
            if "from_timestamp" in name and not (inst % US == 0 or abs(inst // US) < (1 << 31)):
                continue
            acc.c["evaluations"] += 1
            acc.c["transitions"] += 1
            try:
                r = fn()
                got = (obs.fields(r), obs.offset_s(r))
                nm = getattr(r, "timezone_name", None)
            except Exception as e:  # noqa: BLE001
                got, nm = f"raises {type(e).__name__}", None
            case = {"kind": "localenv", "TZ": spelling, "zone": zone, "inst": inst, "op": name}
            if got != exp:
                acc.mismatch(name, "machine-zone-from-TZ", case, got, exp)
            elif "/usr/" not in spelling and nm is not None and nm != zone:
                acc.mismatch(name, "machine-zone-name", case, nm, zone)


def _local_env_fresh(arg):
    import pendulum
    acc = core.Acc(ID)
    check_local_env(acc, pendulum, arg["TZ"], arg["zone"])
    return acc.result()


def run_shard(shard):
    import pendulum
    acc = core.Acc(ID)
    if shard.get("kind") == "local-env":
        if worker.CTX["config"].get("tz", "sys") == "sys":      # file-path spellings read the system database
            for spelling, zone in TZ_SPELLINGS:
                acc.absorb(worker.fresh_call("c01", "_local_env_fresh", {"TZ": spelling, "zone": zone}, {"TZ": spelling}))
                acc.c["nontrivial"] += 1
            acc.sample({"machine_zone_from_TZ_spellings": [s_ for s_, _ in TZ_SPELLINGS]})
        return acc.result()
    if shard.get("kind") == "chains":
        from .. import chain
        for sd in shard["seeds"]:
            with worker.guarded(acc, "chain", {"kind": "chain", "z": sd["z"], "inst": sd["inst"], "zones": sd["zones"]}, 300):
                chain.explore(acc, pendulum, sd["z"], sd["inst"], sd["zones"], shard["depth"], {'conv'})
            acc.c["nontrivial"] += 1
        acc.sample({"chain_seed": [shard["seeds"][0]["z"], obs.iso(shard["seeds"][0]["inst"])], "depth": shard["depth"],
                    "zones": [str(z) for z in shard["seeds"][0]["zones"]],
                    "ops": "in_timezone x zones, add/subtract hours/minutes/seconds, +/- timedelta, add days/weeks/months"})
        return acc.result()
    if shard.get("kind") == "local":
        # the target given as 'local' / None: every ordered triple of local-timezone settings made one after the other
        # WITHOUT a reset in between (depth-3 histories of set_local_timezone), each followed by conversions
        import itertools
        zs = shard["zones"]
        try:
            for perm in itertools.permutations(zs, 3):
                for step in range(3):
                    local_step(acc, pendulum, list(perm[:step + 1]), replaying=False)
                acc.c["nontrivial"] += 1
        finally:
            pendulum.set_local_timezone()
        acc.c["states"] += len(zs) * len(LOCAL_INSTANTS)
        acc.sample({"local_timezone_histories": "all ordered triples", "zones": zs})
        return acc.result()
    witness = shard["witness"]
    states = 0
    if shard["kind"] == "zones":
        for z in shard["zones"]:
            if isinstance(z, int):
                plan_ = [(None, seeds.grid_instants(370)[::3] + [0, -1, 1])]
            else:
                trs = seeds.zone_transitions(z)
                if shard["limit"]:
                    trs = seeds.pick_transitions(trs, shard["limit"], shard["seed"])
                plan_ = [(tr, seeds.probe_instants(*tr, full=shard["full"])) for tr in trs]
                plan_.append((None, seeds.grid_instants(370 if not shard["full"] else 37)))
                acc.c["nontrivial"] += sum(len(p) for tr, p in plan_ if tr is not None)
            for tr, insts in plan_:
                if tr is not None:
                    check_native_walls(acc, pendulum, z, tr)
                inter = _inter_for(z, tr, witness)
                for inst in insts:
                    states += 1
                    with worker.guarded(acc, "conversion", {"kind": "state", "z": z, "inst": inst}):
                        explore_state(acc, pendulum, z, inst, inter)
            if not isinstance(z, int) and plan_ and plan_[0][0] is not None:
                acc.sample({"zone": z, "instant": obs.iso(plan_[0][1][0]),
                            "ops": ["in_timezone", "in_tz", "astimezone", "from_timestamp", "fromtimestamp",
                                    "instance(zoneinfo|pytz|dateutil|timezone|pendulum)", "A->W->A", "A->W->W2"],
                            "intermediates": [str(w) for w in _inter_for(z, plan_[0][0], witness)]})
    elif shard["kind"] == "pairs":
        # thorough: every ordered pair (source zone at its transitions) -> every target zone
        targets = shard["targets"]
        for z in shard["zones"]:
            trs = seeds.zone_transitions(z)
            tzobj = _tz(pendulum, z)
            for tr in trs:
                for inst in seeds.probe_instants(*tr, full=False):
                    states += 1
                    u = obs.utc_dt(pendulum, inst)
                    a = u.in_timezone(tzobj)
                    for w in targets:
                        b = a.in_timezone(_tz(pendulum, w))
                        acc.c["evaluations"] += 1
                        verify(acc, pendulum, b, w, inst, "A->B", {"kind": "pair", "z": z, "inst": inst, "w": w})
                        c = b.in_timezone(tzobj)
                        verify(acc, pendulum, c, z, inst, "A->B->A", {"kind": "pair", "z": z, "inst": inst, "w": w})
            acc.c["nontrivial"] += 5 * len(trs)
        acc.sample({"pairs": [shard["zones"][0], "-> all zones"], "targets": len(targets)})
    acc.c["states"] += states
    return acc.result()


def replay_case(case, acc):
    import pendulum
    if case.get("kind") == "chain":
        from .. import chain
        chain.replay(acc, pendulum, case, {'conv'})
        return
    if case.get("kind") == "localenv":
        if worker.CTX["config"].get("TZ") != case["TZ"]:
            acc.absorb(worker.fresh_call("c01", "_local_env_fresh", {"TZ": case["TZ"], "zone": case["zone"]}, {"TZ": case["TZ"]}))
        else:
            check_local_env(acc, pendulum, case["TZ"], case["zone"])
        return
    if case.get("kind") == "local":
        try:
            local_step(acc, pendulum, case["history"], replaying=True)
        finally:
            pendulum.set_local_timezone()
        return
    if case.get("kind") == "nwall":
        check_native_walls(acc, pendulum, case["z"], tuple(case["tr"]))
        return
    z, inst = case["z"], case["inst"]
    if case["kind"] == "pair":
        u = obs.utc_dt(pendulum, inst)
        a = u.in_timezone(_tz(pendulum, z))
        b = a.in_timezone(_tz(pendulum, case["w"]))
        verify(acc, pendulum, b, case["w"], inst, "A->B", case)
        verify(acc, pendulum, b.in_timezone(_tz(pendulum, z)), z, inst, "A->B->A", case)
        return
    inter = list(seeds.witness_zones(0))
    if not isinstance(z, int):
        for tr in seeds.zone_transitions(z):
            if abs(tr[0] * US - inst) <= (abs(tr[1] - tr[2]) + 2) * US:
                inter = _inter_for(z, tr, inter)
    for k in ("w", "w2"):
        if k in case and case[k] not in inter:
            inter.append(case[k])
    if "w2" in case and "w" in case:
        # keep the recorded order so that A->W->W2 is rebuilt
        inter = [x for x in inter if x not in (case["w"], case["w2"])] + [case["w2"], case["w"]]
    explore_state(acc, pendulum, z, inst, [w for w in inter if w != z])


def plan(tier, seed):
    thorough = tier == "thorough"
    witness = list(seeds.witness_zones(seed)) + [o for o in seeds.WITNESS_FIXED]
    zones = list(seeds.all_zones()) + list(seeds.WITNESS_FIXED) + [34200, -12600, 45 * 60 + 5 * 3600]
    shards = [{"kind": "zones", "zones": ch, "limit": 0 if thorough else 12, "full": thorough,
               "seed": seed, "witness": witness} for ch in seeds.chunks(zones, 64)]
    from .. import chain
    cs = chain.chain_seeds(seed, 3 if not thorough else 8)
    shards += [{"kind": "chains", "seeds": ch, "depth": 3, "witness": witness} for ch in seeds.chunks(cs, 32)]
    shards.append({"kind": "local", "zones": ["Europe/Paris", "Asia/Tokyo", "America/St_Johns", "UTC"]})
    shards.append({"kind": "local-env"})
    plans = [({"ext": 1, "tz": "sys"}, shards)]
    if thorough:
        plans.append(({"ext": 0, "tz": "pkg"}, shards))
        allz = list(seeds.all_zones()) + [h * 1800 for h in range(-24, 29)]
        pair_shards = [{"kind": "pairs", "zones": ch, "targets": allz, "witness": witness}
                       for ch in seeds.chunks(seeds.all_zones(), 128)]
        plans.append(({"ext": 1, "tz": "sys"}, pair_shards))
    return plans


def evidence(m, tier, seed):
    c = m.c
    return {"coverage": {
        "evaluations": c["evaluations"], "states": c["states"], "transitions": c["transitions"],
        "traces_validated_against_impl": c["transitions"],
        "distinct_nontrivial": c["nontrivial"],
        "impl_states_per_model_state": round(c["impl_states"] / max(1, c["states"]), 3),
        "rule": "model state = (instant, zone); instants = P(t) around offset transitions from the tz data (quick: "
                "12 transitions/zone rotated by VERIF_SEED; thorough: all, both tz databases, plus every ordered "
                "zone pair) + year grid; from each state all depth<=3 conversion sequences through the witness "
                "zones and the two fixed offsets colliding with the transition's own offsets; non-trivial = "
                "states adjacent to a transition",
        "exhaustive": True,
        "skipped_db_mismatch": c["skipped_db_mismatch"],
        "skipped_foreign_error": c["skipped_foreign_error"],
    }, "assumptions": ["reference TZif reader (validated against zoneinfo by ./check setup)",
                       "pytz/dateutil sources are used only where their own offset equals the reference database's"]}
