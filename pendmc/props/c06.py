"""C06 - interval components are canonical and rebuild the end from the start.

Seeds      : every (start date, end date) pair with the start in leap-cycle windows and the end up to 800 days
             later x time-of-day borrow patterns {equal, end earlier, end later, microsecond borrow}; realised as
             native date / naive datetime / UTC / fixed-offset arguments (function level) and as Date, naive, UTC,
             fixed-offset, same-zone and different-zone pendulum values (Interval level).
Operations : pendulum._helpers.precise_diff and pendulum._pendulum.precise_diff on native arguments (as
             Interval.__init__ passes them); Interval component properties; a + (b - a); a.add(**components);
             the reversed interval; in_months().
Oracle     : decomposition checker: non-negative, months 0-11, days 0-30, h 0-23, min/s 0-59; adding the components
             back (month shift with clamp, then days and time on the wall clock - the integer model of C04) gives
             exactly b; reversed == negated; in_months == 12*years + months; different zones == the two instants
             in UTC; Rust == Python on every pair.
"""
from __future__ import annotations

import datetime as dt_

from .. import core, obs, seeds, worker
from ..ref import calref, tzref
from . import c04

ID = "C06"
US = 1_000_000
BORROWS = (((8, 30, 15, 500000), (8, 30, 15, 500000)),      # equal
           ((8, 30, 15, 500000), (8, 30, 15, 499999)),      # microsecond borrow
           ((23, 59, 59, 999999), (0, 0, 0, 0)),            # end earlier in the day
           ((0, 0, 0, 1), (23, 59, 59, 0)))                 # end later in the day


def _mods():
    import pendulum
    import pendulum._helpers as py
    from ..worker import CTX
    rs = None
    if CTX["config"].get("ext", 1):
        import pendulum._pendulum as rs
    return pendulum, py, rs


# local (start, end) times of day for the same-offset pairs: chosen so that the UTC calendar date of one or both
# endpoints differs from the local one (offsets +05:30, +01:00/+02:00, -05:00/-04:00)
SHIFTING_TIMES = (((5, 0, 0, 0), (6, 0, 0, 0)), ((1, 15, 0, 0), (20, 0, 0, 5)), ((12, 0, 0, 0), (0, 30, 0, 0)),
                  ((22, 0, 0, 7), (23, 30, 0, 0)), ((0, 0, 0, 0), (0, 0, 0, 0)))
SAME_OFFSET_PAIRS = (("Asia/Kolkata", "Asia/Colombo"), ("Asia/Kolkata", 19800), (19800, "Asia/Kolkata"),
                     ("Europe/Paris", "Europe/Berlin"), ("America/New_York", "America/Toronto"))


def comp_tuple(p):
    return (p.years, p.months, p.days, p.hours, p.minutes, p.seconds, p.microseconds)


def check_decomp(fa, fb, c):
    """fa <= fb as wall fields (7-tuples). c = (years, months, days, hours, minutes, seconds, us).
    Returns None if fine, else (class, detail)."""
    y, mo, d, h, mi, s, us = c
    if min(c) < 0:
        return "negative", c
    if not (mo <= 11 and d <= 30 and h <= 23 and mi <= 59 and s <= 59 and us <= 999999):
        return "range", c
    r = c04.add_wall(fa, {"years": y, "months": mo, "days": d, "hours": h, "minutes": mi, "seconds": s,
                          "microseconds": us})
    if r != tuple(fb):
        return "rebuild", r
    return None


def fn_pair(acc, mods, da, db, ta, tb, kinds, diff_only=False):
    """Function-level check of one (start, end) pair; da/db = (y,m,d), ta/tb = (h,mi,s,us)."""
    pendulum, py, rs = mods
    fa, fb = tuple(da) + tuple(ta), tuple(db) + tuple(tb)
    if fa > fb:
        return
    for kind in kinds:
        if kind == "date":
            a, b = dt_.date(*da), dt_.date(*db)
            wa, wb = tuple(da) + (0, 0, 0, 0), tuple(db) + (0, 0, 0, 0)
        elif kind == "naive":
            a, b = dt_.datetime(*fa), dt_.datetime(*fb)
            wa, wb = fa, fb
        elif kind == "utc":
            a, b = dt_.datetime(*fa, tzinfo=dt_.timezone.utc), dt_.datetime(*fb, tzinfo=dt_.timezone.utc)
            wa, wb = fa, fb
        else:  # fixed offset +05:30 through pendulum's FixedTimezone (named)
            tz = pendulum.timezone(19800)
            a, b = dt_.datetime(*fa, tzinfo=tz), dt_.datetime(*fb, tzinfo=tz)
            wa, wb = fa, fb
        case = {"kind": "fn", "arg": kind, "a": list(fa), "b": list(fb)}
        res = {}
        for name, be in (("py", py), ("rs", rs)):
            if be is None:
                continue
            p = be.precise_diff(a, b)
            q = be.precise_diff(b, a)
            acc.c["evaluations"] += 2
            acc.c["transitions"] += 2
            c = comp_tuple(p)
            res[name] = (c, p.total_days)
            if diff_only:
                continue
            bad = check_decomp(wa, wb, c)
            if bad:
                acc.mismatch(f"precise_diff.{name}", f"{kind}/{bad[0]}", case, {"components": c, "detail": bad[1]},
                             "canonical components that rebuild the end")
            if comp_tuple(q) != tuple(-x for x in c) or q.total_days != -p.total_days:
                acc.mismatch(f"precise_diff.{name}", f"{kind}/reversed", case, comp_tuple(q), tuple(-x for x in c))
            td = calref.days_from_civil(*db) - calref.days_from_civil(*da)
            if p.total_days != td:
                acc.mismatch(f"precise_diff.{name}", f"{kind}/total_days", case, p.total_days, td)
        if len(res) == 2 and res["py"] != res["rs"]:
            acc.mismatch("backends", f"{kind}/rust-vs-python", case, res["rs"], res["py"])


def _mk(pendulum, kind, f, z=None):
    if kind == "date":
        return pendulum.Date(*f[:3])
    if kind == "naive":
        return pendulum.DateTime(*f)
    if kind == "utc":
        return pendulum.DateTime(*f, tzinfo=pendulum.UTC)
    if kind == "fixed":
        return pendulum.DateTime(*f, tzinfo=pendulum.timezone(19800))
    return pendulum.DateTime.create(*f, tz=pendulum.timezone(z))


def iv_components(iv):
    return {"years": iv.years, "months": iv.months, "weeks": iv.weeks, "days": iv.remaining_days,
            "hours": iv.hours, "minutes": iv.minutes, "seconds": iv.remaining_seconds,
            "microseconds": iv.microseconds}


def iv_pair(acc, mods, kind, fa, fb, z=None, native=True):
    """Interval-level check for a <= b in one zone with the same offset."""
    pendulum, py, rs = mods
    if kind == "date":
        fa, fb = tuple(fa[:3]) + (0, 0, 0, 0), tuple(fb[:3]) + (0, 0, 0, 0)
    if fa > fb:
        return
    a, b = _mk(pendulum, kind, fa, z), _mk(pendulum, kind, fb, z)
    if kind == "fixed" and (fa[2] + fb[2]) % 2:
        # the same offset carried by a DISTINCT FixedTimezone instance (what unpickling in another process, or a
        # hand-built FixedTimezone, gives): still one zone
        b = pendulum.DateTime(*fb, tzinfo=pendulum.FixedTimezone(19800))
    if kind == "zone":
        if obs.fields(a) != tuple(fa) or obs.fields(b) != tuple(fb) or obs.offset_s(a) != obs.offset_s(b) \
                or obs.is_repeated_wall(z, fb):
            acc.c["skipped_out_of_scope_zone_pair"] += 1
            return
    case = {"kind": "iv", "arg": kind, "z": z, "a": list(fa), "b": list(fb)}
    iv = b - a
    acc.c["evaluations"] += 1
    acc.c["transitions"] += 4
    comp = iv_components(iv)
    vals = list(comp.values())
    if min(vals) < 0 or comp["months"] > 11 or comp["weeks"] * 7 + comp["days"] > 30 or comp["days"] > 6 \
            or comp["hours"] > 23 or comp["minutes"] > 59 or comp["seconds"] > 59:
        acc.mismatch("interval", f"{kind}/range", case, comp, "canonical ranges")
        return
    key = (lambda x: (x.year, x.month, x.day)) if kind == "date" else (lambda x: (obs.fields(x), obs.offset_s(x)))
    addkw = comp if kind != "date" else {k: comp[k] for k in ("years", "months", "weeks", "days")}
    for lbl, fn in (("a+(b-a)", lambda: a + iv), ("add(components)", lambda: a.add(**addkw)), ("(b-a)+a", lambda: iv + a),
                    ("Duration(components)+a", lambda: pendulum.Duration(**comp) + a), ("a+Duration(components)", lambda: a + pendulum.Duration(**comp))):
        try:
            r = fn()
        except Exception as e:  # noqa: BLE001
            acc.mismatch("interval", f"{kind}/{lbl}/raises-{type(e).__name__}", case, {"components": comp, "raised": str(e)[:80]}, str(b))
            continue
        if key(r) != key(b):
            acc.mismatch("interval", f"{kind}/{lbl}", case, {"components": comp, "result": str(r)}, str(b))
    if iv.in_months() != 12 * comp["years"] + comp["months"] or iv.in_years() != comp["years"]:
        acc.mismatch("interval", f"{kind}/in_months", case, [iv.in_years(), iv.in_months()],
                     [comp["years"], 12 * comp["years"] + comp["months"]])
    rv = a - b
    rc = iv_components(rv)
    if rc != {k: -v for k, v in comp.items()}:
        acc.mismatch("interval", f"{kind}/reversed", case, rc, {k: -v for k, v in comp.items()})
    # the reversed interval obtained from the interval itself (-iv), and the interval again AFTER it was negated, made
    # absolute and added: an Interval is a value - nothing done with it may change what it reports
    try:
        nc = iv_components(-iv)
        ac = iv_components(abs(rv))
    except Exception as e:  # noqa: BLE001
        nc = ac = f"raises {type(e).__name__}"
    if nc != {k: -v for k, v in comp.items()}:
        acc.mismatch("interval", f"{kind}/negated", case, nc, {k: -v for k, v in comp.items()})
    if ac != comp:
        acc.mismatch("interval", f"{kind}/abs-of-reversed", case, ac, comp)
    # ... and in the other order: abs() of the forward interval first, THEN its negation, equality and hash
    try:
        abs(iv), abs(abs(iv)), abs(rv)
        after = [iv_components(-iv), iv_components(-rv), iv == (b - a), hash(iv) == hash(b - a), obs.td_us(-iv) == -obs.td_us(iv)]
    except Exception as e:  # noqa: BLE001
        after = f"raises {type(e).__name__}"
    if after != [{k: -v for k, v in comp.items()}, comp, True, True, True]:
        acc.mismatch("interval", f"{kind}/negated-after-abs", case, after, [{k: -v for k, v in comp.items()}, comp, True, True, True])
    again = (iv_components(iv), iv_components(rv))
    if again != (comp, rc):
        acc.mismatch("interval", f"{kind}/components-changed-after-use", case, list(again), [comp, rc])
    if kind != "date" and native:
        # the same subtraction with a native operand on either side
        na = dt_.datetime(*fa, tzinfo=a.tzinfo, fold=a.fold)
        nb = dt_.datetime(*fb, tzinfo=b.tzinfo, fold=b.fold)
        for lbl, fn in (("pendulum-minus-native", lambda: b - na), ("native-minus-pendulum", lambda: nb - a),
                        ("Interval(native,native)", lambda: pendulum.Interval(na, nb)),
                        ("interval(native,pendulum)", lambda: pendulum.interval(na, b)),
                        ("diff(native)", lambda: a.diff(nb, False))):
            if kind == "naive" and lbl in ("interval(native,pendulum)", "diff(native)"):
                continue    # instance() reads a naive native value as UTC: mixing it with a naive DateTime is a TypeError by design
            acc.c["evaluations"] += 1
            acc.c["transitions"] += 1
            try:
                iv2 = fn()
                got = (iv_components(iv2), obs.td_us(iv2)) if isinstance(iv2, pendulum.Interval) else type(iv2).__name__
            except Exception as e:  # noqa: BLE001
                got = f"raises {type(e).__name__}"
            if got != (comp, obs.td_us(iv)):
                acc.mismatch("interval", f"{kind}/{lbl}", case, got, [comp, obs.td_us(iv)])


def cross_zone_pair(acc, mods, za, ia, zb, ib):
    """Endpoints in differently named zones are decomposed as the same two instants expressed in UTC."""
    pendulum, py, rs = mods
    if ia > ib:
        za, ia, zb, ib = zb, ib, za, ia
    a = obs.utc_dt(pendulum, ia).in_timezone(pendulum.timezone(za))
    b = obs.utc_dt(pendulum, ib).in_timezone(pendulum.timezone(zb))
    ua, ub = obs.utc_dt(pendulum, ia), obs.utc_dt(pendulum, ib)
    case = {"kind": "cross", "za": za, "ia": ia, "zb": zb, "ib": ib}
    got = iv_components(b - a)
    want = iv_components(ub - ua)
    acc.c["evaluations"] += 1
    acc.c["transitions"] += 2
    if got != want:
        acc.mismatch("interval", "cross-zone/as-utc", case, got, want)
    # the same endpoints handed over as native datetimes
    na = dt_.datetime(*obs.fields(a), tzinfo=a.tzinfo, fold=a.fold)
    nb = dt_.datetime(*obs.fields(b), tzinfo=b.tzinfo, fold=b.fold)
    for lbl, fn in (("interval(native,native)", lambda: pendulum.interval(na, nb)), ("pendulum-minus-native", lambda: b - na),
                    ("interval(a,b)", lambda: pendulum.interval(a, b)), ("Interval(a,b)", lambda: pendulum.Interval(a, b)),
                    ("interval(b,a,absolute)", lambda: pendulum.interval(b, a, absolute=True)),
                    ("a.diff(b)", lambda: a.diff(b)), ("b.diff(a)", lambda: b.diff(a))):
        acc.c["evaluations"] += 1
        acc.c["transitions"] += 1
        try:
            g2 = iv_components(fn())
        except Exception as e:  # noqa: BLE001
            g2 = f"raises {type(e).__name__}"
        if g2 != want:
            acc.mismatch("interval", f"cross-zone/{lbl}", case, g2, want)
    bad = check_decomp(obs.fields(ua), obs.fields(ub),
                       (want["years"], want["months"], want["weeks"] * 7 + want["days"], want["hours"],
                        want["minutes"], want["seconds"], want["microseconds"]))
    if bad:
        acc.mismatch("interval", f"utc/{bad[0]}", case, want, "canonical components that rebuild the end")


def run_shard(shard):
    mods = _mods()
    acc = core.Acc(ID)
    k = shard["kind"]
    if k == "fn":
        span = shard["span"]
        for n in range(shard["n0"], shard["n1"], shard.get("step", 1)):
            da = calref.civil_from_days(n)
            acc.c["states"] += 1
            for e in range(n, n + span + 1):
                db = calref.civil_from_days(e)
                if db[2] < da[2]:
                    acc.c["nontrivial"] += 1        # day borrow: the month-length branch is exercised
                for bi, (ta, tb) in enumerate(BORROWS):
                    kinds = ("naive",) if bi else ("naive", "date")
                    if (n + e) % 11 == 0:
                        kinds = kinds + ("utc", "fixed")
                    with worker.guarded(acc, "precise_diff", {"kind": "fn", "arg": kinds[-1], "a": list(da) + list(ta), "b": list(db) + list(tb)}):
                        fn_pair(acc, mods, da, db, ta, tb, kinds)
        acc.sample({"start": list(calref.civil_from_days(shard["n0"])), "ends": f"start..start+{span} days",
                    "borrow_patterns": len(BORROWS), "backends": ["python", "rust"]})
    elif k == "iv":
        for n in range(shard["n0"], shard["n1"], shard["step"]):
            da = calref.civil_from_days(n)
            acc.c["states"] += 1
            for e in range(n, n + shard["span"] + 1, shard["estep"]):
                db = calref.civil_from_days(e)
                for bi, (ta, tb) in enumerate(BORROWS):
                    fa, fb = tuple(da) + ta, tuple(db) + tb
                    for kind, z in shard["kinds"]:
                        if kind == "date" and bi:
                            continue
                        with worker.guarded(acc, "interval", {"kind": "iv", "arg": kind, "z": z, "a": list(fa), "b": list(fb)}):
                            iv_pair(acc, mods, kind, fa, fb, z, native=(bi < 2 or shard["estep"] == 1))
        acc.sample({"interval_pairs_from": list(calref.civil_from_days(shard["n0"])),
                    "kinds": [k for k, _ in shard["kinds"]]})
    elif k == "long":
        # spans beyond 2^33 s (272 years): the length no longer fits a float of seconds exactly - the components must
        # still be exact and rebuild the end
        for da in ((5, 1, 1), (1000, 2, 28), (1700, 1, 1), (1999, 12, 31), (2000, 2, 29)):
            acc.c["states"] += 1
            for yrs in (271, 272, 273, 300, 600, 1000, 5000, 7990):
                for m, dd in ((1, 1), (2, 28), (7, 15), (12, 31)):
                    db = (da[0] + yrs, m, dd)
                    if db[0] > 9998:
                        continue
                    for bi, (ta, tb) in enumerate(BORROWS):
                        fa, fb = tuple(da) + ta, tuple(db) + tb
                        for kind, z in shard["kinds"]:
                            if kind == "date" and bi:
                                continue
                            acc.c["nontrivial"] += 1
                            with worker.guarded(acc, "interval", {"kind": "iv", "arg": kind, "z": z, "a": list(fa), "b": list(fb)}):
                                iv_pair(acc, mods, kind, fa, fb, z, native=True)
        acc.sample({"long_spans_years": [271, 272, 273, 300, 600, 1000, 5000, 7990]})
    elif k == "cross-same":
        # differently NAMED zones that share their offset: nothing but the names tells the helper to go through UTC
        for n in range(shard["n0"], shard["n1"], shard["step"]):
            da = calref.civil_from_days(n)
            acc.c["states"] += 1
            for e in range(n, n + shard["span"] + 1, shard["estep"]):
                db = calref.civil_from_days(e)
                for ta, tb in SHIFTING_TIMES:
                    for za, zb in shard["pairs"]:
                        sa = tzref.zone(za).solve(tzref.wall_us(tuple(da) + ta) // US)
                        sb = tzref.zone(zb).solve(tzref.wall_us(tuple(db) + tb) // US)
                        if len(sa) != 1 or len(sb) != 1:
                            continue
                        ia, ib = sa[0] * US + ta[3], sb[0] * US + tb[3]
                        if calref.civil_from_days(sa[0] // 86400) != da or calref.civil_from_days(sb[0] // 86400) != db:
                            acc.c["nontrivial"] += 1     # the UTC date differs from the local date
                        with worker.guarded(acc, "interval", {"kind": "cross", "za": za, "ia": ia, "zb": zb, "ib": ib}):
                            cross_zone_pair(acc, mods, za, ia, zb, ib)
        acc.sample({"same_offset_pairs": [list(map(str, p)) for p in shard["pairs"]], "from": list(calref.civil_from_days(shard["n0"]))})
    elif k == "overlap":
        # starts in the SECOND pass of a repeated hour (fold=1): same offset as every later end, so in scope
        for z in shard["zones"]:
            trs = [tr for tr in seeds.zone_transitions(z) if tr[2] < tr[1] and tr[1] - tr[2] <= 7200
                   and 946684800 < tr[0] < 1924992000]
            for t, ob, oa in seeds.pick_transitions(trs, shard["limit"], shard["seed"]) if shard["limit"] else trs:
                lo = t + oa                                   # first repeated wall second
                for dw in (0, (ob - oa) // 2, ob - oa - 1):
                    fa = seeds.fields_of_wall((lo + dw) * US + 250000)
                    acc.c["states"] += 1
                    acc.c["nontrivial"] += 1
                    for span in (ob - oa, 4 * 3600, 20 * 3600 + 59, 86400 + 7200, 3 * 86400 - 1800, 31 * 86400 + 3600, 400 * 86400):
                        fb = seeds.fields_of_wall((lo + dw + span) * US + 125000)
                        with worker.guarded(acc, "interval", {"kind": "iv", "arg": "zone", "z": z, "a": list(fa), "b": list(fb)}):
                            iv_pair(acc, mods, "zone", fa, fb, z)
        acc.sample({"overlap_starts_in": shard["zones"][:3], "fold": 1})
    elif k == "cross":
        S = shard["states"]
        for za, ia in shard["left"]:
            acc.c["states"] += 1
            for zb, ib in S:
                if za != zb:
                    with worker.guarded(acc, "interval", {"kind": "cross", "za": za, "ia": ia, "zb": zb, "ib": ib}):
                        cross_zone_pair(acc, mods, za, ia, zb, ib)
    return acc.result()


def replay_case(case, acc):
    mods = _mods()
    if case["kind"] == "fn":
        a, b = case["a"], case["b"]
        fn_pair(acc, mods, a[:3], b[:3], tuple(a[3:]), tuple(b[3:]), (case["arg"],))
    elif case["kind"] == "iv":
        iv_pair(acc, mods, case["arg"], tuple(case["a"]), tuple(case["b"]), case.get("z"))
    else:
        cross_zone_pair(acc, mods, case["za"], case["ia"], case["zb"], case["ib"])


def _cross_states(seed):
    S = []
    for z in ("UTC", "Europe/Paris", "America/New_York", "Asia/Kolkata", "Australia/Lord_Howe", "Pacific/Apia"):
        for y, m, d, hh in ((2019, 1, 31, 23), (2019, 3, 1, 0), (2020, 2, 29, 12), (2021, 12, 31, 23),
                            (2022, 1, 1, 0), (2023, 4, 30, 13), (2023 + seed % 3, 7, 2, 5)):
            S.append((z, (calref.days_from_civil(y, m, d) * 86400 + hh * 3600 + 1800) * US + 7))
        # hours around the European and American transitions of 2021 (the UTC shift of an endpoint crosses them)
        for y, m, d, hh in ((2021, 3, 28, 1), (2021, 3, 28, 12), (2021, 10, 31, 0), (2021, 3, 14, 7), (2021, 11, 7, 5)):
            S.append((z, (calref.days_from_civil(y, m, d) * 86400 + hh * 3600 + 1800) * US))
    # values exactly at LOCAL MIDNIGHT in their own zone (today(tz), start_of('day') ...)
    for z in ("Asia/Tokyo", "America/New_York", "Europe/Berlin", 19800):
        for y, m, d in ((2024, 1, 31), (2024, 3, 1)):
            wall_s = calref.days_from_civil(y, m, d) * 86400
            off = z if isinstance(z, int) else tzref.zone(z).solve(wall_s)[0]
            S.append((z, (wall_s - off) * US))
    # UTC offsets that are not whole minutes: local mean time eras of named zones, and fixed offsets with seconds
    for z in ("Europe/Paris", "America/New_York", "Europe/Amsterdam", 20440, -17762):
        for y, m, d, hh, mi, ss in ((1880, 3, 31, 23, 59, 30), (1880, 5, 1, 0, 0, 20), (1881, 1, 1, 12, 30, 45)):
            S.append((z, (calref.days_from_civil(y, m, d) * 86400 + hh * 3600 + mi * 60 + ss) * US + 3))
    return S


def plan(tier, seed):
    thorough = tier == "thorough"
    shards = []
    d = calref.days_from_civil
    windows = [(d(2019, 1, 1), d(2023, 1, 1), 1)]
    if thorough:
        windows += [(d(1896, 1, 1), d(1905, 1, 1), 1), (d(1996, 1, 1), d(2005, 1, 1), 1),
                    (d(2096, 1, 1), d(2105, 1, 1), 1), (d(2, 1, 1), d(6, 1, 1), 1), (d(9990, 1, 1), d(9995, 1, 1), 1)]
    else:
        # around the (non-)leap Februaries of the century patterns, every 2nd day
        for y in (1899, 1999, 2099, 2399, 3 + seed % 4):
            windows.append((d(y, 11, 1) + seed % 2, d(y + 1, 5, 1), 2))
    for n0, n1, step in windows:
        size = 24 if step == 1 else 48
        for s in range(n0, n1, size):
            shards.append({"kind": "fn", "n0": s, "n1": min(n1, s + size), "step": step, "span": 800})
    kinds = [("date", None), ("naive", None), ("utc", None), ("fixed", None), ("zone", "Europe/Paris"),
             ("zone", "America/Sao_Paulo"), ("zone", "Asia/Kolkata")]
    for s in range(d(2019, 1, 1), d(2023, 1, 1), 48):
        shards.append({"kind": "iv", "n0": s, "n1": s + 48, "step": 1 if thorough else 5, "span": 800,
                       "estep": 1 if thorough else 7, "kinds": kinds})
    for s in range(d(2019, 1, 1), d(2023, 1, 1), 48):
        shards.append({"kind": "cross-same", "n0": s, "n1": s + 48, "step": 1 if thorough else 3, "span": 430,
                       "estep": 1 if thorough else 5, "pairs": [list(p) for p in SAME_OFFSET_PAIRS]})
    shards.append({"kind": "long", "kinds": kinds[:4]})
    oz = ["Europe/Paris", "America/New_York", "Europe/London", "Australia/Lord_Howe", "America/Sao_Paulo", "Asia/Tehran"] + \
        [z for z in seeds.witness_zones(seed, 3)[-3:]]
    shards += [{"kind": "overlap", "zones": [z], "limit": 0 if thorough else 6, "seed": seed} for z in oz]
    S = _cross_states(seed)
    shards += [{"kind": "cross", "left": ch, "states": S} for ch in seeds.chunks(S, 8)]
    plans = [({"ext": 1, "tz": "sys"}, shards)]
    if thorough:
        iv_only = [s for s in shards if s["kind"] != "fn"]
        plans.append(({"ext": 0, "tz": "sys"}, iv_only))
    else:
        plans.append(({"ext": 0, "tz": "sys"}, [s for s in shards if s["kind"] == "iv"][::6] +
                      [s for s in shards if s["kind"] in ("cross", "overlap", "long")] + [s for s in shards if s["kind"] == "cross-same"][::3]))
    return plans


def evidence(m, tier, seed):
    c = m.c
    return {"coverage": {
        "evaluations": c["evaluations"], "states": c["states"], "transitions": c["transitions"],
        "traces_validated_against_impl": c["transitions"],
        "distinct_nontrivial": c["nontrivial"],
        "rule": "function level: every (start, end) date pair with the start in 2019-01-01..2023-01-01 (every day) and "
                "around the Februaries of 1900/2000/2100/2400 and one early year (quick: every 2nd day; thorough: "
                "full 9-year windows 1896-1904, 1996-2004, 2096-2104, years 2-5, 9990-9994) and the end 0..800 days "
                "later x 4 time-of-day borrow patterns, both back ends on native arguments; Interval level: a "
                "sub-lattice of the same pairs as Date/naive/UTC/+05:30/same-zone values under both back ends; "
                "different-zone pairs over a 42-state set; differently named zones sharing their offset (Kolkata/Colombo/"
                "+05:30, Paris/Berlin, New_York/Toronto): start days of 2019-2022 x ends 0..430 days later x 5 "
                "time-of-day pairs whose UTC date differs from the local date; non-trivial = pairs with a day borrow (end day < start day)",
        "exhaustive": True,
        "skipped_out_of_scope_zone_pair": c["skipped_out_of_scope_zone_pair"],
    }, "assumptions": ["the wall-clock addition model of C04 defines 'added back to a'"]}
