"""C13 - ISO 8601 durations and intervals parse to their exact value.

Seeds      : every subset of the designators {Y, M, D, H, M, S} (and W alone) x a value alphabet; a decimal fraction on
             the smallest component: all digit strings of length 1..3 (quick: 1..2 + a sub-lattice of 3) and longer
             ones up to 9 digits x {'.', ','}; big numbers (2^31-1, 2^32-1, 2^32, 10^10-1); out-of-order designator
             permutations; fractional Y / M; the three interval forms over a datetime grid x durations.
Operations : pendulum.parse under both back ends; parse_iso8601 of both parsers at function level (same process).
Oracle     : years and months as given; rest = exact rational value (fractions.Fraction) rounded to the microsecond
             (either neighbour accepted on an exact tie); out-of-order / fractional Y,M -> ValueError; too large ->
             ValueError (never a wrapped value, never another exception); interval endpoints = start.add(duration) /
             end.subtract(duration) by the integer model of C04.
"""
from __future__ import annotations

import datetime as dt_
import itertools
from fractions import Fraction

from .. import worker
from .. import core, obs, seeds
from ..ref import calref, tzref
from . import c04

ID = "C13"
US = 1_000_000
UNIT_US = {"W": 7 * 86400 * US, "D": 86400 * US, "H": 3600 * US, "Mi": 60 * US, "S": US}
ORDER = ("Y", "Mo", "D", "H", "Mi", "S")
LETTER = {"Y": "Y", "Mo": "M", "W": "W", "D": "D", "H": "H", "Mi": "M", "S": "S"}
MAX_TD_US = 999999999 * 86400 * US + 86399999999


def _mods():
    import pendulum
    from pendulum.parsing import iso8601 as pyp
    from ..worker import CTX
    fns = {"py": pyp.parse_iso8601}
    if CTX["config"].get("ext", 1):
        import pendulum._pendulum as rs
        fns["rs"] = rs.parse_iso8601
    return pendulum, fns


def render(comps, frac=None):
    """comps: list of (designator, int value) in the order to render; frac = (sep, digits) on the LAST component."""
    s = "P"
    in_time = False
    for i, (k, v) in enumerate(comps):
        if k in ("H", "Mi", "S") and not in_time:
            s += "T"
            in_time = True
        s += str(v)
        if frac is not None and i == len(comps) - 1:
            s += frac[0] + frac[1]
        s += LETTER[k]
    return s


def exact_value(comps, frac=None):
    """(years, months, rest as Fraction of microseconds)."""
    y = mo = 0
    rest = Fraction(0)
    for i, (k, v) in enumerate(comps):
        val = Fraction(v)
        if frac is not None and i == len(comps) - 1:
            val += Fraction(int(frac[1]), 10 ** len(frac[1]))
        if k == "Y":
            y = v
        elif k == "Mo":
            mo = v
        else:
            rest += val * UNIT_US[k]
    return y, mo, rest


def acceptable_us(rest):
    fl = rest.numerator // rest.denominator
    if rest == fl:
        return {fl}
    if rest - fl == Fraction(1, 2):
        return {fl, fl + 1}
    return {fl + 1} if rest - fl > Fraction(1, 2) else {fl}


def obs_duration(x):
    """(years, months, rest_us) of a pendulum Duration or of the compiled parser's Duration record."""
    if isinstance(x, dt_.timedelta):
        y, mo = x.years, x.months
        rest = obs.td_us(x) - (y * 365 + mo * 30) * 86400 * US
        # the components the value reports must be a breakdown of that same rest
        comp = (((x.weeks * 7 + x.remaining_days) * 24 + x.hours) * 60 + x.minutes) * 60 * US + x.remaining_seconds * US + x.microseconds
        if comp != rest:
            return ("duration-whose-components-disagree-with-its-value", y, mo, rest, comp)
        return ("duration", y, mo, rest)
    if hasattr(x, "remaining_seconds") and hasattr(x, "weeks"):
        rest = (((x.weeks * 7 + x.days) * 24 + x.hours) * 60 + x.minutes) * 60 * US + x.seconds * US + x.microseconds
        return ("duration", x.years, x.months, rest)
    return (type(x).__name__, repr(x)[:80])


def outcome(fn, *a, **k):
    try:
        return obs_duration(fn(*a, **k))
    except ValueError:
        return ("ValueError",)
    except Exception as e:  # noqa: BLE001
        return (type(e).__name__, str(e)[:60])


# ---- known-finding predicates -------------------------------------------------------------------------------

def _rs_fraction_model(comps, frac):
    """What rust/src/parsing.rs computes for a fraction on W/D/H (it rounds through WHOLE seconds)."""
    k, v = comps[-1]
    f = int(frac[1]) / float(10 ** len(frac[1]))      # decimal / denominator in f64
    days = hours = minutes = seconds = micro = 0
    if k == "W":
        ed = f * 7.0
        days = int(ed)
        eh = (ed - int(ed)) * 24.0
        hours = int(eh)
        em = round_half_away((eh - int(eh)) * 60.0)
        minutes = int(em)
        es = round_half_away((em - int(em)) * 60.0)
        seconds = int(es)
        micro = int(round_half_away((es - int(es)) * 1e6))
    elif k == "D":
        eh = f * 24.0
        hours = int(eh)
        em = round_half_away((eh - int(eh)) * 60.0)
        minutes = int(em)
        es = round_half_away((em - int(em)) * 60.0)
        seconds = int(es)
        micro = int(round_half_away((es - int(es)) * 1e6))
    elif k == "H":
        em = f * 60.0
        minutes = int(em)
        es = round_half_away((em - int(em)) * 60.0)
        seconds = int(es)
        micro = int(round_half_away((es - int(es)) * 1e6))
    else:
        return None
    return ((days * 24 + hours) * 60 + minutes) * 60 * US + seconds * US + micro


def round_half_away(x):
    import math
    return math.floor(x + 0.5) if x >= 0 else math.ceil(x - 0.5)


def kf_rs_fraction(comps, frac, got, name):
    """C13-rs-fraction-whole-seconds: compiled parser, fraction on W / D / H: the remainder is rounded to whole
    minutes and seconds before the microseconds are taken, so everything below one second is lost."""
    if name != "rs" or frac is None or comps[-1][0] not in ("W", "D", "H") or got[0] != "duration":
        return False
    y, mo, rest = exact_value(comps, None)
    model = _rs_fraction_model(comps, frac)
    return model is not None and got[3] == int(rest) + model


def check_duration(acc, mods, comps, frac, kind):
    pendulum, fns = mods
    s = render(comps, frac)
    y, mo, rest = exact_value(comps, frac)
    ok_us = acceptable_us(rest)
    total_us = min(ok_us) + (y * 365 + mo * 30) * 86400 * US
    representable = abs(total_us) <= MAX_TD_US and all(v < 10 ** 9 for _, v in comps)
    case = {"kind": "dur", "comps": [list(c) for c in comps], "frac": list(frac) if frac else None, "s": s}
    with worker.guarded(acc, "duration", case):
        _check_duration(acc, mods, comps, frac, kind, s, y, mo, ok_us, representable, case)
    acc.outcomes["representable" if representable else "too-large"] += 1


def _check_duration(acc, mods, comps, frac, kind, s, y, mo, ok_us, representable, case):
    pendulum, fns = mods
    results = {}
    for name, fn in list(fns.items()) + [("parse", pendulum.parse)]:
        got = outcome(fn, s)
        acc.c["evaluations"] += 1
        acc.c["transitions"] += 1
        results[name] = got
        backend = name if name != "parse" else ("rs" if "rs" in fns else "py")
        if got[0] == "duration":
            if (got[1], got[2]) != (y, mo) or got[3] not in ok_us:
                kf = None
                if kf_rs_fraction(comps, frac, got, backend):
                    kf = "C13-rs-fraction-whole-seconds"
                cls = "wrapped-or-wrong-big-number" if any(v >= 2 ** 31 for _, v in comps) else \
                    ("fraction" if frac else "integers")
                acc.mismatch(f"duration.{name}", f"{kind}/{cls}", case, got, ["duration", y, mo, sorted(ok_us)], kf=kf)
        elif got == ("ValueError",):
            if representable:
                acc.mismatch(f"duration.{name}", f"{kind}/rejected", case, got, ["duration", y, mo, sorted(ok_us)])
        else:
            acc.mismatch(f"duration.{name}", f"{kind}/exception", case, got,
                         ["duration", y, mo, sorted(ok_us)] if representable else ["ValueError"])


def check_reject(acc, mods, s, kind):
    pendulum, fns = mods
    case = {"kind": "rej", "s": s, "form": kind}
    for name, fn in list(fns.items()) + [("parse", pendulum.parse)]:
        with worker.guarded(acc, f"reject.{name}", case):
            got = None
            got = outcome(fn, s)
        if got is None:
            continue
        acc.c["evaluations"] += 1
        acc.c["transitions"] += 1
        if got != ("ValueError",):
            backend = name if name != "parse" else ("rs" if "rs" in fns else "py")
            acc.mismatch(f"reject.{name}", kind, case, got, ["ValueError"])


# ---- intervals --------------------------------------------------------------------------------------------

def check_interval(acc, mods, fa, dur, fb):
    """fa: start fields (UTC), dur: components dict for c04.add_wall, fb unused for duration forms."""
    pendulum, fns = mods
    ta = "%04d-%02d-%02dT%02d:%02d:%02d" % fa[:6]
    if "weeks" in dur:
        comps_w = [("W", dur["weeks"])]
        return _check_interval_forms(acc, mods, fa, {"days": 7 * dur["weeks"]}, render(comps_w), dur)
    comps = [(k, v) for k, v in (("Y", dur.get("years", 0)), ("Mo", dur.get("months", 0)), ("D", dur.get("days", 0)),
                                 ("H", dur.get("hours", 0)), ("Mi", dur.get("minutes", 0)),
                                 ("S", dur.get("seconds", 0))) if v]
    if not comps:
        return
    _check_interval_forms(acc, mods, fa, dur, render(comps), dur)


def _check_interval_forms(acc, mods, fa, dur, ds, dur_case):
    pendulum, fns = mods
    ta = "%04d-%02d-%02dT%02d:%02d:%02d" % fa[:6]
    end = c04.add_wall(tuple(fa), dur, 1)
    start2 = c04.add_wall(tuple(fa), dur, -1)
    forms = []
    if end is not None and 2 <= end[0] <= 9998:
        forms.append((f"{ta}Z/{ds}", fa, end, "start/duration"))
        tb = "%04d-%02d-%02dT%02d:%02d:%02d" % end[:6]
        forms.append((f"{ta}Z/{tb}Z", fa, end, "start/end"))
        forms.append((f"{tb}Z/{ta}Z", end, fa, "start/end-reversed"))     # endpoints exactly as written, later one first
    if start2 is not None and 2 <= start2[0] <= 9998:
        forms.append((f"{ds}/{ta}Z", start2, fa, "duration/end"))
    # the same strings without a UTC designator, read in the zone given by the tz option (a fixed offset: the wall-clock
    # model of the duration arithmetic stays valid) - both endpoints must be in that zone
    tzopt = pendulum.FixedTimezone(19800)
    forms = [(s_, es, ee, kind, None, 0) for s_, es, ee, kind in forms] + \
            [(s_.replace("Z", ""), es, ee, kind + "/tz-option", tzopt, 19800) for s_, es, ee, kind in forms] + \
            [(s_.replace("Z", txt), es, ee, kind + "/explicit-offset", None, off) for s_, es, ee, kind in forms
             for txt, off in (("-05:00", -18000), ("+03:00", 10800))]
    for s, es, ee, kind, tzo, eoff in forms:
        case = {"kind": "iv", "fa": list(fa), "dur": dur_case}
        acc.c["evaluations"] += 1
        acc.c["transitions"] += 1
        try:
            r = pendulum.parse(s) if tzo is None else pendulum.parse(s, tz=tzo)
            got = (type(r).__name__, obs.fields(r.start), obs.offset_s(r.start), obs.fields(r.end), obs.offset_s(r.end))
        except ValueError:
            got = ("ValueError",)
        except Exception as e:  # noqa: BLE001
            got = (type(e).__name__, str(e)[:60])
        want = ("Interval", tuple(es), eoff, tuple(ee), eoff)
        if got != want:
            acc.mismatch("interval", kind, dict(case, s=s), got, want)


def check_interval_zone(acc, mods, z, fa, dur):
    """start/duration and duration/end read in a named zone (tz option) where the duration crosses an offset change:
    the missing endpoint is start.add() / end.subtract() with the duration's (normalised) components - C04's model."""
    pendulum, fns = mods
    comp = c04.components(dur)
    ta = "%04d-%02d-%02dT%02d:%02d:%02d" % tuple(fa[:6])
    ds = render([(k, v) for k, v in (("Y", dur.get("years", 0)), ("Mo", dur.get("months", 0)), ("D", dur.get("days", 0)),
                                     ("H", dur.get("hours", 0)), ("Mi", dur.get("minutes", 0)), ("S", dur.get("seconds", 0))) if v])
    kind0, inst0 = tzref.normalize(tzref.zone(z), tuple(fa), 0)
    if kind0 != "unique":
        return
    here = obs.expected_render(z, inst0)
    for s, sign, form in ((f"{ta}/{ds}", 1, "start/duration"), (f"{ds}/{ta}", -1, "duration/end")):
        other = c04.expected(z, tuple(fa), comp, sign)
        if other is None:
            continue
        want = ("Interval",) + ((here[0], here[1], other[0], other[1]) if sign == 1 else (other[0], other[1], here[0], here[1]))
        acc.c["evaluations"] += 1
        acc.c["transitions"] += 1
        try:
            r = pendulum.parse(s, tz=z)
            got = (type(r).__name__, obs.fields(r.start), obs.offset_s(r.start), obs.fields(r.end), obs.offset_s(r.end))
        except ValueError:
            got = ("ValueError",)
        except Exception as e:  # noqa: BLE001
            got = (type(e).__name__, str(e)[:60])
        if got != want:
            acc.mismatch("interval", form + "/named-zone", {"kind": "ivz", "z": z, "fa": list(fa), "dur": dur, "s": s}, got, want)


def _shapes(f):
    """Spellings of one UTC / fixed-offset endpoint: (text, fields, offset)."""
    y, m, d, hh, mi, ss, us = f
    date, time = "%04d-%02d-%02d" % (y, m, d), "%02d:%02d:%02d" % (hh, mi, ss)
    out = [(f"{date}T{time}Z", (y, m, d, hh, mi, ss, 0), 0),
           (f"{date}T{time}.{us:06d}Z", f, 0),
           (f"{date}T{time},{us // 1000:03d}Z", (y, m, d, hh, mi, ss, us // 1000 * 1000), 0),
           (f"{date}T{time}+00:00", (y, m, d, hh, mi, ss, 0), 0),
           (f"{date}T{time}.{us:06d}+01:00", f, 3600),
           (f"{date}T{time}-0930", (y, m, d, hh, mi, ss, 0), -34200),
           ("%04d%02d%02dT%02d%02d%02dZ" % (y, m, d, hh, mi, ss), (y, m, d, hh, mi, ss, 0), 0),
           (f"{date} {time}Z", (y, m, d, hh, mi, ss, 0), 0)]
    if ss == 0:
        out.append((f"{date}T{hh:02d}:{mi:02d}Z", (y, m, d, hh, mi, 0, 0), 0))
    return out


def check_interval_shapes(acc, mods, fa, fb):
    """start/end strings whose two endpoints are written in different (complete) spellings: exactly those endpoints."""
    pendulum, fns = mods
    for sa, ea, oa in _shapes(fa):
        for sb, eb, ob in _shapes(fb):
            s = f"{sa}/{sb}"
            acc.c["evaluations"] += 1
            acc.c["transitions"] += 1
            try:
                r = pendulum.parse(s)
                got = (type(r).__name__, obs.fields(r.start), obs.offset_s(r.start), obs.fields(r.end), obs.offset_s(r.end))
            except ValueError:
                got = ("ValueError",)
            except Exception as e:  # noqa: BLE001
                got = (type(e).__name__, str(e)[:60])
            want = ("Interval", tuple(ea), oa, tuple(eb), ob)
            if got != want:
                acc.mismatch("interval", "start/end/mixed-spellings", {"kind": "shapes", "fa": list(fa), "fb": list(fb), "s": s}, got, want)
    # date-only endpoints in both spellings
    for da in ("%04d-%02d-%02d" % fa[:3], "%04d%02d%02d" % fa[:3]):
        for db in ("%04d-%02d-%02d" % fb[:3], "%04d%02d%02d" % fb[:3]):
            acc.c["evaluations"] += 1
            try:
                r = pendulum.parse(f"{da}/{db}")
                got = (type(r).__name__, (r.start.year, r.start.month, r.start.day), (r.end.year, r.end.month, r.end.day))
            except ValueError:
                got = ("ValueError",)
            except Exception as e:  # noqa: BLE001
                got = (type(e).__name__, str(e)[:60])
            if got != ("Interval", tuple(fa[:3]), tuple(fb[:3])):
                acc.mismatch("interval", "start/end/mixed-date-spellings", {"kind": "shapes", "fa": list(fa), "fb": list(fb), "s": f"{da}/{db}"},
                             got, ("Interval", tuple(fa[:3]), tuple(fb[:3])))


# ---- seeds -------------------------------------------------------------------------------------------------

def frac_strings(thorough):
    out = [str(i) for i in range(10)] + ["%02d" % i for i in range(100)] + ["%03d" % i for i in range(1000)]
    if thorough:
        out += ["%04d" % i for i in range(10000)] + ["%05d" % i for i in range(0, 100000, 7)]
        out += ["%06d" % i for i in range(0, 1000000, 997)]
    else:
        out += ["%04d" % i for i in range(0, 10000, 37)] + ["%06d" % i for i in range(0, 1000000, 9973)]
    out += ["0157", "0163", "00397", "000249", "000001", "999999", "0000001", "0000005", "0000015", "1234567",
            "9999995", "00000001", "12345678", "000000001", "123456789", "999999999", "499999", "500001", "5000005"]
    return out


BASES = {"W": [[("W", 1)], [("W", 0)], [("W", 52)]],
         "D": [[("D", 1)], [("Y", 1), ("Mo", 2), ("D", 0)], [("D", 99)]],
         "H": [[("H", 1)], [("D", 1), ("H", 0)], [("Y", 1), ("H", 23)]],
         "Mi": [[("Mi", 1)], [("H", 1), ("Mi", 0)], [("D", 2), ("H", 3), ("Mi", 59)]],
         "S": [[("S", 3)], [("Mi", 1), ("S", 0)], [("Y", 1), ("Mo", 1), ("D", 1), ("H", 1), ("Mi", 1), ("S", 59)]]}


def run_shard(shard):
    mods = _mods()
    acc = core.Acc(ID)
    k = shard["kind"]
    if k == "subsets":
        vals = shard["values"]
        for sub in shard["subsets"]:
            for vs in itertools.product(vals, repeat=len(sub)):
                comps = list(zip(sub, vs))
                acc.c["states"] += 1
                check_duration(acc, mods, comps, None, "int")
        acc.sample({"designators": list(shard["subsets"][0]), "values": list(vals)})
    elif k == "fractions":
        unit = shard["unit"]
        for base in BASES[unit]:
            for f in shard["fracs"]:
                for sep in ".,":
                    acc.c["states"] += 1
                    acc.c["nontrivial"] += 1
                    check_duration(acc, mods, base, (sep, f), f"frac-{unit}")
        acc.sample({"string": render(BASES[unit][0], (".", shard["fracs"][3]))})
    elif k == "big":
        for key in ("Y", "Mo", "W", "D", "H", "Mi", "S"):
            for v in (2 ** 31 - 1, 2 ** 31, 2 ** 32 - 1, 2 ** 32, 2 ** 32 + 1, 10 ** 10 - 1, 999999999, 10 ** 9,
                      4294967296 * 3 + 5, 10 ** 12):
                acc.c["states"] += 1
                acc.c["nontrivial"] += 1
                check_duration(acc, mods, [(key, v)], None, "big")
                if key not in ("Y", "W", "S"):
                    check_duration(acc, mods, [("Y", 1), (key, v)] if key != "Mo" else [(key, v), ("D", 1)], None, "big")
        acc.sample({"string": "P4294967296D"})
    elif k == "reject":
        # out-of-order designators (values include 0), fractional Y/M
        date_part = ("Y", "Mo", "D")
        time_part = ("H", "Mi", "S")
        for part in (date_part, time_part):
            for n in (2, 3):
                for perm in itertools.permutations(part, n):
                    if list(perm) == [p for p in part if p in perm]:
                        continue
                    for vs in itertools.product((0, 1, 12), repeat=n):
                        comps = list(zip(perm, vs))
                        # render in the (wrong) given order
                        s = "P" + ("T" if part is time_part else "") + "".join(f"{v}{LETTER[k_]}" for k_, v in comps)
                        acc.c["states"] += 1
                        check_reject(acc, mods, s, "out-of-order")
        # a designator given twice (every unit, values incl. 0), a week among date designators
        for k_ in ("Y", "Mo", "D", "H", "Mi", "S", "W"):
            for v1, v2 in itertools.product((0, 1, 12), repeat=2):
                pre = "PT" if k_ in ("H", "Mi", "S") else "P"
                acc.c["states"] += 1
                check_reject(acc, mods, f"{pre}{v1}{LETTER[k_]}{v2}{LETTER[k_]}", "out-of-order")
        for s_ in ("P1D2W", "P2W1Y", "P1M2W", "P1Y1M1D1M", "PT1H1M1H", "P1Y2M3DT4H5M6S7S", "P1DT1H1D", "PT1S1M1S"):
            acc.c["states"] += 1
            check_reject(acc, mods, s_, "out-of-order")
        fy = ["P1.5Y", "P0.5M", "P1,5Y", "P1.5Y1D", "P1Y2.5M", "P1.5YT1H", "P2.5M3D"]
        # every fraction of 1..3 digits (zero fractions included: a fraction written as .0 is still a fraction) on Y and on M
        for frac in [f"{i:0{w}d}" for w in (1, 2, 3) for i in range(10 ** w)]:
            for sep in ".,":
                fy += [f"P1{sep}{frac}Y", f"P1{sep}{frac}M", f"P1Y2{sep}{frac}M", f"P3{sep}{frac}YT1H"]
        for s in fy:
            acc.c["states"] += 1
            check_reject(acc, mods, s, "fractional-year-month")
        acc.c["nontrivial"] += acc.c["states"]
        acc.sample({"must_reject": ["P1M1Y", "PT1S1H", "P1.5Y"]})
    elif k == "intervals":
        durs = [{"years": 1}, {"months": 1}, {"months": 13, "days": 3}, {"days": 1}, {"days": 45, "hours": 5},
                {"hours": 25}, {"minutes": 61, "seconds": 1}, {"years": 1, "months": 2, "days": 3, "hours": 4,
                                                               "minutes": 5, "seconds": 6},
                {"months": 1, "days": 1}, {"days": 29}, {"seconds": 86399}, {"years": 4}, {"weeks": 1}, {"weeks": 2}, {"weeks": 53},
                # a year count together with 12 or more months, large single components
                {"years": 1, "months": 14}, {"years": 2, "months": 12}, {"years": 3, "months": 18, "hours": 12},
                {"years": 1, "months": 26, "days": 10, "hours": 2, "minutes": 30}, {"months": 25}, {"days": 400, "hours": 49},
                {"hours": 100, "minutes": 150, "seconds": 4000}]
        for fa in shard["starts"]:
            acc.c["states"] += 1
            for dur in durs:
                check_interval(acc, mods, tuple(fa), dur, None)
                acc.c["nontrivial"] += 1
        acc.sample({"interval": "2020-01-31T08:30:15Z/P1M"})
    elif k == "zone-intervals":
        durs = [{"hours": 36}, {"minutes": 2160}, {"hours": 25}, {"days": 1, "hours": 12}, {"hours": 23, "minutes": 59, "seconds": 3661},
                {"days": 1}, {"months": 1, "hours": 30}, {"seconds": 90000}, {"hours": 1}, {"hours": 48}]
        for z, days in (("Europe/Paris", ((2021, 3, 27), (2021, 10, 30), (2021, 3, 28), (2021, 6, 1))),
                        ("America/New_York", ((2021, 3, 13), (2021, 11, 6))), ("Australia/Lord_Howe", ((2021, 4, 3), (2021, 10, 2)))):
            for d in days:
                for hh in (0, 12, 23):
                    fa = d + (hh, 0, 0, 0)
                    acc.c["states"] += 1
                    for dur in durs:
                        acc.c["nontrivial"] += 1
                        check_interval_zone(acc, mods, z, fa, dur)
        acc.sample({"interval_in_named_zone": "parse('2021-03-27T12:00:00/PT36H', tz='Europe/Paris')"})
    elif k == "shapes":
        pts = [(2020, 1, 1, 10, 0, 0, 500000), (2020, 1, 1, 12, 0, 30, 123456), (2021, 12, 31, 23, 59, 0, 1000), (2007, 11, 13, 0, 0, 0, 250000)]
        for fa in pts:
            for fb in pts:
                acc.c["states"] += 1
                acc.c["nontrivial"] += 1
                check_interval_shapes(acc, mods, fa, fb)
        acc.sample({"interval_spellings": "2020-01-01T10:00:00.500000Z/2020-01-01T12:00:30Z"})
        check_offset_sweep(acc, mods)
        check_week53_intervals(acc, mods)
    return acc.result()


def check_offset_sweep(acc, mods):
    """Intervals whose endpoints are written with an explicit offset, for EVERY quarter-hour offset from -15:45 to +15:45, first
    in ascending then in descending order within one process: each endpoint carries the offset it was written with (whatever
    offsets were parsed before it), and a month is added on that wall clock."""
    pendulum, fns = mods
    offs = [q * 900 for q in range(-63, 64)]
    for oname, order in (("ascending", offs), ("descending", list(reversed(offs))), ("ascending-again", offs)):
        for off in order:
            sg = "-" if off < 0 else "+"
            ot = "%s%02d:%02d" % (sg, abs(off) // 3600, abs(off) // 60 % 60)
            for text, ws, we in ((f"2021-03-31T10:00:00{ot}/P1M", (2021, 3, 31, 10, 0, 0, 0), (2021, 4, 30, 10, 0, 0, 0)),
                                 (f"P1M/2021-03-31T01:00:00{ot}", (2021, 2, 28, 1, 0, 0, 0), (2021, 3, 31, 1, 0, 0, 0)),
                                 (f"2021-03-31T10:00:00{ot}/2021-04-01T09:00:00{ot}", (2021, 3, 31, 10, 0, 0, 0), (2021, 4, 1, 9, 0, 0, 0))):
                acc.c["evaluations"] += 1
                acc.c["transitions"] += 1
                try:
                    r = pendulum.parse(text)
                    got = [type(r).__name__, list(obs.fields(r.start)), obs.offset_s(r.start), list(obs.fields(r.end)), obs.offset_s(r.end)]
                except ValueError:
                    got = ["ValueError"]
                except Exception as e:  # noqa: BLE001
                    got = [f"raises {type(e).__name__}"]
                want = ["Interval", list(ws), off, list(we), off]
                if got != want:
                    acc.mismatch("interval", f"explicit-offset-sweep/{oname}", {"kind": "offsweep", "s": text, "order": oname}, got, want)
    acc.c["states"] += len(offs)
    acc.c["nontrivial"] += len(offs)


def check_week53_intervals(acc, mods):
    """Interval endpoints written as ISO week dates in week 53 - for every kind of year (53-week years incl. the leap years that
    start on a Thursday, years without a week 53): the calendar's date, or ValueError."""
    pendulum, fns = mods
    for y in (1976, 2004, 2032, 2060, 1980, 2008, 2036, 2015, 2020, 2026, 2009, 1998, 2019, 2021, 2024, 2100):
        try:
            d53 = dt_.date.fromisocalendar(y, 53, 5)
        except ValueError:
            d53 = None
        w1 = dt_.date.fromisocalendar(y + 1, 1, 1)
        for text, mk in ((f"{y:04d}-W53-5/P1D", lambda: ((d53.year, d53.month, d53.day), tuple((d53 + dt_.timedelta(days=1)).timetuple()[:3]))),
                         (f"PT36H/{y:04d}W535", lambda: (tuple((dt_.datetime(d53.year, d53.month, d53.day) - dt_.timedelta(hours=36)).timetuple()[:5]), (d53.year, d53.month, d53.day, 0, 0))),
                         (f"{y:04d}-W53-5T23:59:59/{y + 1:04d}-W01-1T00:00:00", lambda: ((d53.year, d53.month, d53.day, 23, 59), (w1.year, w1.month, w1.day, 0, 0)))):
            want = ["ValueError"] if d53 is None else ["Interval"] + [list(x) for x in mk()]
            acc.c["evaluations"] += 1
            acc.c["transitions"] += 1
            try:
                r = pendulum.parse(text)
                n = len(want[1]) if len(want) > 1 else 3
                got = [type(r).__name__, list(r.start.timetuple()[:n]), list(r.end.timetuple()[:n])]
            except ValueError:
                got = ["ValueError"]
            except Exception as e:  # noqa: BLE001
                got = [f"raises {type(e).__name__}"]
            if got != want:
                acc.mismatch("interval", "week-53-endpoint", {"kind": "w53", "s": text}, got, want)
        acc.c["states"] += 1


def replay_case(case, acc):
    mods = _mods()
    if case["kind"] == "w53":
        check_week53_intervals(acc, mods)
        return
    if case["kind"] == "offsweep":
        check_offset_sweep(acc, mods)
        return
    if case["kind"] == "dur":
        check_duration(acc, mods, [tuple(c) for c in case["comps"]], tuple(case["frac"]) if case["frac"] else None, "replay")
        # signatures carry the original kind: re-run under each kind label
        for kind in ("int", "big", "frac-W", "frac-D", "frac-H", "frac-Mi", "frac-S"):
            check_duration(acc, mods, [tuple(c) for c in case["comps"]], tuple(case["frac"]) if case["frac"] else None, kind)
    elif case["kind"] == "rej":
        check_reject(acc, mods, case["s"], case["form"])
    elif case["kind"] == "ivz":
        check_interval_zone(acc, mods, case["z"], tuple(case["fa"]), case["dur"])
    elif case["kind"] == "shapes":
        check_interval_shapes(acc, mods, tuple(case["fa"]), tuple(case["fb"]))
    else:
        check_interval(acc, mods, tuple(case["fa"]), case["dur"], None)


def plan(tier, seed):
    thorough = tier == "thorough"
    shards = []
    subsets = []
    for n in range(1, 7):
        subsets += list(itertools.combinations(ORDER, n))
    vals = (0, 1, 12, 99, 1000) if thorough else (0, 1, 12, 99)
    for ch in seeds.chunks(subsets, 21):
        shards.append({"kind": "subsets", "subsets": ch, "values": vals})
    shards.append({"kind": "subsets", "subsets": [("W",)], "values": (0, 1, 12, 99, 5218)})
    fr = frac_strings(thorough)
    for unit in ("W", "D", "H", "Mi", "S"):
        for ch in seeds.chunks(fr, 12 if thorough else 4):
            shards.append({"kind": "fractions", "unit": unit, "fracs": ch})
    shards.append({"kind": "big"})
    shards.append({"kind": "reject"})
    starts = [(y, m, d, hh, 30, 15, 0) for (y, m, d) in ((2020, 1, 31), (2020, 2, 29), (2021, 12, 31), (2023, 3, 31),
                                                         (2024, 10, 15), (1999, 12, 31 - seed % 3))
              for hh in (0, 8, 23)]
    for ch in seeds.chunks(starts, 6):
        shards.append({"kind": "intervals", "starts": ch})
    shards.append({"kind": "shapes"})
    shards.append({"kind": "zone-intervals"})
    return [({"ext": 1, "tz": "sys"}, shards), ({"ext": 0, "tz": "sys"}, shards)]


def evidence(m, tier, seed):
    c = m.c
    return {"coverage": {
        "evaluations": c["evaluations"], "states": c["states"], "transitions": c["transitions"],
        "traces_validated_against_impl": c["transitions"],
        "distinct_nontrivial": c["nontrivial"],
        "rule": "state = duration/interval string generated from a grammar: all 63 designator subsets of {Y,M,D,H,M,S} "
                "(+ W) x value alphabet {0,1,12,99[,1000]}; fractions: all digit strings of length 1..3, sub-lattices of "
                "length 4 and 6 (thorough: all of length 1..4 and sub-lattices of 5-6) + 19 longer ones up to 9 digits x {'.', ','} "
                "on 3 base durations per unit W/D/H/M/S; 10 big numbers on each designator; all out-of-order "
                "permutations of 2-3 designators with values {0,1,12}; fractional Y/M; 3 interval forms x 18 starts x "
                "12 durations; each string through parse_iso8601 of both parsers and pendulum.parse under both back "
                "ends; non-trivial = fraction, big-number, must-reject and interval strings",
        "exhaustive": True,
    }, "assumptions": ["a year is 365 days and a month 30 days only inside the timedelta value (years/months are compared "
                       "as given)", "either neighbour is accepted when the exact value lies exactly half-way between two "
                                    "microseconds"]}
