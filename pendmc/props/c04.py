"""C04 - calendar-unit arithmetic follows the wall clock with end-of-month clamping.

States     : Dates / DateTimes (UTC, naive, fixed offset, witness zones) on days {1,15,28,29,30,31} of every
             month of a year set covering every leap/century pattern; for the witness zones additionally starts
             chosen so that the *target* wall time is skipped or repeated.
Operations : add / subtract (years, months, weeks, days, hours, minutes, seconds, microseconds) on DateTime and
             Date; dt + Duration, dt - Duration, dt + (-d), dt.subtract(components of d); Date +- Duration|timedelta.
Oracle     : integer model: shift (year, month), clamp the day to the target month, add weeks/days/time on the
             wall clock, then the C02 normalisation (constructor default: later occurrence / forward) in the
             zone; add(-x) == subtract(x); dt - d == dt + (-d) == dt.subtract(components of d).
"""
from __future__ import annotations

import datetime as dt_
import itertools

from .. import worker
from .. import core, obs, seeds
from ..ref import calref, tzref

ID = "C04"
US = 1_000_000
KEYS = ("years", "months", "weeks", "days", "hours", "minutes", "seconds", "microseconds")
_TZ = {}


def _tz(pendulum, z):
    t = _TZ.get(z)
    if t is None:
        t = _TZ[z] = pendulum.timezone(z)
    return t


def add_wall(f, kw, sign=1):
    """Reference: fields + amount on the wall clock (None if outside years 1..9999)."""
    y, m, d, hh, mm, ss, us = f
    g = lambda k: sign * kw.get(k, 0)  # noqa: E731
    ny, nm, nd = calref.add_months(y, m, d, g("years") * 12 + g("months"))
    if not (1 <= ny <= 9999):
        return None
    w = obs.wall_us((ny, nm, nd, hh, mm, ss, us))
    w += ((g("weeks") * 7 + g("days")) * 86400 + g("hours") * 3600 + g("minutes") * 60 + g("seconds")) * US
    w += g("microseconds")
    r = seeds.fields_of_wall(w)
    if not (1 <= r[0] <= 9999):
        return None
    return r


def variable(kw):
    return any(kw.get(k, 0) for k in ("years", "months", "weeks", "days"))


def expected(z, f, kw, sign=1):
    """Expected (fields, offset) of start(fields f in zone z) +- kw, or None if out of scope."""
    r = add_wall(f, kw, sign)
    if r is None or not (2 <= r[0] <= 9998):
        return None
    if z is None:
        return r, None
    kind, inst = tzref.normalize(tzref.zone(z), r, 1)
    if inst is None:
        return None
    return obs.expected_render(z, inst)


def components(kw):
    """Public components of Duration(**kw): (years, months, weeks, remaining_days, h, m, s, us)."""
    rest = ((kw.get("weeks", 0) * 7 + kw.get("days", 0)) * 86400 + kw.get("hours", 0) * 3600
            + kw.get("minutes", 0) * 60 + kw.get("seconds", 0)) * US + kw.get("microseconds", 0)
    s = -1 if rest < 0 else 1
    a = abs(rest)
    return {"years": kw.get("years", 0), "months": kw.get("months", 0),
            "weeks": a // (7 * 86400 * US) * s, "days": a // (86400 * US) % 7 * s,
            "hours": a // (3600 * US) % 24 * s, "minutes": a // (60 * US) % 60 * s,
            "seconds": a // US % 60 * s, "microseconds": a % US * s}


def _obs(r):
    return (obs.fields(r), obs.offset_s(r))


def _try(fn):
    try:
        return fn()
    except (ValueError, OverflowError):
        return None


def check_dt(acc, pendulum, z, f, kw, durations=True, fold=1):
    """fold: the raw fold flag of the receiver (1 = as pendulum.datetime() builds it, 0 = as conversions and
    arithmetic leave it); on an unambiguous start it must not influence the result (route independence)."""
    if not variable(kw):
        return
    if z is None:
        x = pendulum.DateTime(*f, fold=fold)
    else:
        x = pendulum.DateTime.create(*f, tz=_tz(pendulum, z), fold=fold)
        if obs.fields(x) != tuple(f):
            acc.c["skipped_start_not_valid_wall"] += 1
            return
        if fold == 0 and not isinstance(z, int) and obs.is_repeated_wall(z, f):
            return      # a different instant than the fold=1 start: not the same model state
    case = {"kind": "dt", "z": z, "f": list(f), "kw": kw, "fold": fold}
    tzname = x.timezone_name
    pos = tuple(kw.get(k, 0) for k in KEYS)          # every argument positional, in the documented order
    if f[2] % 2 == 0:
        # on every other state the receiver object has been USED before (fixed-length arithmetic, modifiers, conversions,
        # formatting: each returns a new value and leaves the receiver what it was)
        import datetime as dt_
        for use in (lambda: x.add(hours=3), lambda: x + dt_.timedelta(minutes=5), lambda: x.subtract(seconds=1, microseconds=1), lambda: x.start_of("day"),
                    lambda: x.end_of("hour"), lambda: x.in_timezone("Asia/Tokyo"), lambda: x.format("LLLL Z"), lambda: hash(x), lambda: x.diff(x),
                    lambda: x.set(minute=1), lambda: x.day_of_year, lambda: x.isoformat(), lambda: x.timestamp()):
            try:
                use()
            except Exception:  # noqa: BLE001
                pass
    for name, sign, fn in (("add", 1, lambda: x.add(**kw)), ("subtract", -1, lambda: x.subtract(**kw)),
                           ("add-negated", -1, lambda: x.add(**{k: -v for k, v in kw.items()})),
                           ("add-positional", 1, lambda: x.add(*pos)), ("subtract-positional", -1, lambda: x.subtract(*pos))):
        exp = expected(z, f, kw, sign)
        if exp is None:
            acc.c["skipped_out_of_range"] += 1
            continue
        r = _try(fn)
        acc.c["evaluations"] += 1
        acc.c["transitions"] += 1
        if r is None:
            acc.mismatch(name, "raises", case, "ValueError/OverflowError", {"fields": exp[0], "offset": exp[1]})
            continue
        got = _obs(r)
        if got != exp:
            tgt = add_wall(f, kw, sign)
            kind = "plain" if z is None or isinstance(z, int) else tzref.normalize(tzref.zone(z), tgt, 1)[0]
            acc.mismatch(name, kind, case, {"fields": got[0], "offset": got[1]},
                         {"fields": exp[0], "offset": exp[1]})
        elif r.timezone_name != tzname or type(r) is not pendulum.DateTime:
            acc.mismatch(name, "zone-or-type", case, [r.timezone_name, type(r).__name__], [tzname, "DateTime"])
    if not durations:
        return
    d = _try(lambda: pendulum.Duration(**kw))
    if d is None:
        return
    comp = components(kw)
    # dt + d : the constructor arguments of d
    exp = expected(z, f, kw, 1)
    if exp is not None:
        r = _try(lambda: x + d)
        acc.c["evaluations"] += 1
        acc.c["transitions"] += 1
        if r is None or _obs(r) != exp:
            acc.mismatch("plus-Duration", "value", case, None if r is None else _obs(r), exp)
    # dt - d == dt + (-d) == dt.subtract(components of d)
    exp = expected(z, f, comp, -1) if variable(comp) else None
    rs = {"minus-Duration": _try(lambda: x - d), "plus-negated-Duration": _try(lambda: x + (-d)),
          "subtract-components": _try(lambda: x.subtract(**comp))}
    acc.c["evaluations"] += 3
    acc.c["transitions"] += 3
    vals = {k: (None if v is None else _obs(v)) for k, v in rs.items()}
    if len({str(v) for v in vals.values()}) != 1:
        acc.mismatch("minus-Duration", "three-spellings-disagree", case, vals, "all equal")
    elif exp is not None and vals["minus-Duration"] is not None and vals["minus-Duration"] != exp:
        acc.mismatch("minus-Duration", "value", case, vals["minus-Duration"], exp)
    # an Interval as operand (its components are a calendar decomposition): on ANY receiver, + and - are add()/subtract()
    # with those components
    for p0 in INTERVAL_BASES:
        try:
            base = pendulum.DateTime(*p0, tzinfo=pendulum.UTC)
            iv0 = base.add(**kw) - base
            ic = {"years": iv0.years, "months": iv0.months, "weeks": iv0.weeks, "days": iv0.remaining_days, "hours": iv0.hours,
                  "minutes": iv0.minutes, "seconds": iv0.remaining_seconds, "microseconds": iv0.microseconds}
            # the operand is an equal Interval object whose TOTALS (in_weeks() ...) and other read-only views were asked first
            iv = base.add(**kw) - base
            for view in (iv.in_weeks, iv.in_days, iv.in_hours, iv.in_minutes, iv.in_seconds, iv.in_months, iv.in_years, iv.total_seconds,
                         iv.in_words, iv.as_duration, lambda: -iv, lambda: abs(iv), lambda: hash(iv), lambda: str(iv)):
                view()
        except (ValueError, OverflowError):
            continue
        for name, fn, ref in (("plus-Interval", lambda: x + iv, lambda: x.add(**ic)), ("minus-Interval", lambda: x - iv, lambda: x.subtract(**ic)),
                              ("Interval-plus-dt", lambda: iv + x, lambda: x.add(**ic))):
            g, w = _try(fn), _try(ref)
            acc.c["evaluations"] += 1
            acc.c["transitions"] += 1
            if (None if g is None else _obs(g)) != (None if w is None else _obs(w)):
                acc.mismatch(name, "vs-add-components", dict(case, interval_base=list(p0)), None if g is None else _obs(g),
                             None if w is None else _obs(w))
    _check_more_operands(acc, pendulum, x, z, f, kw, case)
    # reflected operand order, and Durations with the same components obtained by arithmetic instead of from the
    # constructor (their raw constructor arguments differ from d's; their components do not)
    r = _try(lambda: d + x)
    acc.c["evaluations"] += 1
    if (None if r is None else _obs(r)) != (None if (e1 := expected(z, f, kw, 1)) is None else e1) and e1 is not None:
        acc.mismatch("Duration-plus-dt", "value", case, None if r is None else _obs(r), e1)
    # operands are values: after everything above was done WITH d, dt + d and dt - d answer as they did the first time
    again = {"plus": _try(lambda: x + d), "minus": _try(lambda: x - d), "plus-again": _try(lambda: x + d)}
    first_plus = expected(z, f, kw, 1)
    for k, v in again.items():
        want = first_plus if k.startswith("plus") else vals["minus-Duration"]
        got = None if v is None else _obs(v)
        acc.c["evaluations"] += 1
        if want is not None and got != want:
            acc.mismatch("operand-reused", k, case, got, want)
    for vname, mk in DERIVED:
        dv = _try(lambda: mk(pendulum, d))
        if dv is None:
            continue
        rs = {"minus": _try(lambda: x - dv), "plus-negated": _try(lambda: x + (-dv))}
        acc.c["evaluations"] += 2
        acc.c["transitions"] += 2
        for k, v in rs.items():
            got = None if v is None else _obs(v)
            if got != vals["subtract-components"]:
                acc.mismatch("minus-Duration", f"derived-{vname}/{k}", case, got, vals["subtract-components"])


def _check_more_operands(acc, pendulum, x, z, f, kw, case):
    """AbsoluteDuration operands (what Time.diff() / abs-like helpers return) and receivers whose tzinfo is not a
    pendulum timezone: the same calendar arithmetic, the timezone kept."""
    import zoneinfo
    from pendulum.duration import AbsoluteDuration
    comp = components(kw)
    ac = {k: abs(v) for k, v in comp.items()}
    ad = _try(lambda: AbsoluteDuration(**kw))
    if ad is not None and variable(ac):
        for name, sign, fn in (("plus-AbsoluteDuration", 1, lambda: x + ad), ("minus-AbsoluteDuration", -1, lambda: x - ad),
                               ("AbsoluteDuration-plus-dt", 1, lambda: ad + x)):
            exp = expected(z, f, ac, sign)
            if exp is None:
                continue
            try:
                r = _obs(fn())
            except Exception as e:  # noqa: BLE001
                r = f"raises {type(e).__name__}"
            acc.c["evaluations"] += 1
            acc.c["transitions"] += 1
            if r != exp:
                acc.mismatch(name, "value", case, r, exp)
    if z is None:
        return
    from .. import foreign
    xo = obs.offset_s(x)
    if isinstance(z, int):
        recv = [("stdlib-timezone", z, pendulum.DateTime(*f, tzinfo=foreign.fixed(z))),
                ("stdlib-named", z, pendulum.DateTime(*f, tzinfo=foreign.named_fixed(z)))]
    else:
        # a zoneinfo object is kept as the named zone; a stdlib fixed offset (also one whose NAME other offsets share) and
        # a DST-aware tzinfo without a key are kept as the offset in force at the receiver
        recv = [("zoneinfo", z, pendulum.DateTime(*f, tzinfo=foreign.zi(z), fold=x.fold)),
                ("stdlib-named", xo, pendulum.DateTime(*f, tzinfo=foreign.named_fixed(xo))),
                ("keyless-dst-tzinfo", xo, pendulum.DateTime(*f, tzinfo=foreign.keyless(z), fold=x.fold))]
    for fname, fz, fx in recv:
        if _obs(fx) != _obs(x):
            continue
        for name, sign, fn in (("add", 1, lambda: fx.add(**kw)), ("subtract", -1, lambda: fx.subtract(**kw))):
            exp = expected(fz, f, kw, sign)
            if exp is None:
                continue
            try:
                r = _obs(fn())
            except Exception as e:  # noqa: BLE001
                r = f"raises {type(e).__name__}"
            acc.c["evaluations"] += 1
            acc.c["transitions"] += 1
            if r != exp:
                acc.mismatch(name, "foreign-tzinfo-receiver/" + fname, dict(case, receiver=fname), r, exp)


def _no_ym(d):
    # Duration + Duration is timedelta addition: years and months turn into 365 / 30 days (C10), so the sum only
    # has "the same components" when there are none
    if d.years or d.months:
        raise ValueError("not component-preserving")
    return d


INTERVAL_BASES = ((2020, 12, 1, 0, 0, 0, 0), (2021, 1, 31, 22, 0, 0, 5))


DERIVED = (("times-one", lambda p, d: d * 1), ("plus-zero", lambda p, d: _no_ym(d) + p.Duration()),
           ("halves", lambda p, d: (_no_ym(d) - p.Duration(days=3, seconds=5)) + p.Duration(days=3, seconds=5)))


def check_date(acc, pendulum, f3, kw):
    kw = {k: v for k, v in kw.items() if k in ("years", "months", "weeks", "days")}
    if not any(kw.values()):
        return
    x = pendulum.Date(*f3)
    f = tuple(f3) + (0, 0, 0, 0)
    case = {"kind": "date", "f": list(f3), "kw": kw}
    for name, sign, fn in (("date-add", 1, lambda: x.add(**kw)), ("date-subtract", -1, lambda: x.subtract(**kw)),
                           ("date-add-negated", -1, lambda: x.add(**{k: -v for k, v in kw.items()}))):
        e = add_wall(f, kw, sign)
        if e is None:
            continue
        r = _try(fn)
        acc.c["evaluations"] += 1
        acc.c["transitions"] += 1
        got = None if r is None else (r.year, r.month, r.day)
        if got != e[:3] or type(r) is not pendulum.Date:
            acc.mismatch(name, "value", case, got, e[:3])
    d = pendulum.Duration(**kw)
    comp = {k: v for k, v in components(kw).items() if k in ("years", "months", "weeks", "days")}
    for name, sign, fn in (("date-plus-Duration", 1, lambda: x + d), ("date-minus-Duration", -1, lambda: x - d),
                           ("date-plus-negated", -1, lambda: x + (-d))):
        e = add_wall(f, comp, sign)
        if e is None:
            continue
        r = _try(fn)
        acc.c["evaluations"] += 1
        acc.c["transitions"] += 1
        got = None if r is None else (r.year, r.month, r.day)
        if got != e[:3]:
            acc.mismatch(name, "value", case, got, e[:3])
    for vname, mk in DERIVED + (("hours", lambda p, dd: p.Duration(years=dd.years, months=dd.months,
                                                                  hours=24 * (dd.weeks * 7 + dd.remaining_days))),):
        dv = _try(lambda: mk(pendulum, d))
        if dv is None:
            continue
        for name, sign, fn in ((f"date-plus-Duration/{vname}", 1, lambda: x + dv), (f"date-minus-Duration/{vname}", -1, lambda: x - dv),
                               (f"Duration-plus-date/{vname}", 1, lambda: dv + x)):
            e = add_wall(f, comp, sign)
            if e is None:
                continue
            r = _try(fn)
            acc.c["evaluations"] += 1
            acc.c["transitions"] += 1
            got = None if r is None else (r.year, r.month, r.day)
            if got != e[:3]:
                acc.mismatch(name.split("/")[0], f"derived-{vname}", case, got, e[:3])
    if "days" in kw or "weeks" in kw:
        nd = kw.get("days", 0) + 7 * kw.get("weeks", 0)
        td = dt_.timedelta(days=nd, seconds=3600)   # a Date ignores the time part of a plain timedelta
        for name, sign, fn in (("date-plus-timedelta", 1, lambda: x + td), ("date-minus-timedelta", -1, lambda: x - td)):
            e = add_wall(f, {"days": nd}, sign)
            if e is None:
                continue
            r = _try(fn)
            acc.c["evaluations"] += 1
            got = None if r is None else (r.year, r.month, r.day)
            if got != e[:3]:
                acc.mismatch(name, "value", case, got, e[:3])


YEARS = (2, 1899, 1900, 1901, 1999, 2000, 2001, 2004, 2023, 2024, 2100, 9997)
DAYS = (1, 15, 28, 29, 30, 31)


def amounts(thorough):
    ys = (0, 1, -1, 4, -100) if not thorough else (0, 1, -1, 4, -4, 100, -100)
    ms = (0, 1, -1, 2, 11, -12, 13, -25) if not thorough else (0, 1, -1, 2, -2, 11, -11, 12, -12, 13, -13, 25, -25)
    ds = (0, 1, -1, 30, -31) if not thorough else (0, 1, -1, 28, -28, 29, -29, 30, -30, 31, -31, 366, -366)
    out = []
    for y, m, d in itertools.product(ys, ms, ds):
        if y or m or d:
            out.append({k: v for k, v in (("years", y), ("months", m), ("days", d)) if v})
    extra = [{"weeks": 1}, {"weeks": -1}, {"weeks": 1, "days": -8}, {"months": 1, "weeks": -1, "days": 3},
             {"days": 1, "hours": 1}, {"days": -1, "hours": -25}, {"months": 1, "hours": -25, "microseconds": 1},
             {"years": 1, "months": -1, "weeks": 1, "days": -1, "hours": 1, "minutes": -1, "seconds": 1,
              "microseconds": -1}, {"days": 1, "microseconds": -1}, {"days": 366}, {"days": -366, "seconds": 86399},
             {"months": 2, "days": 1}, {"months": -2, "days": -1}, {"days": 28}, {"days": -29}, {"months": 14},
             {"months": -14}, {"years": -1, "months": 14}]
    out += extra
    if thorough:
        for base in list(out[:200:3]):
            for t in ({"hours": 1}, {"hours": -25}, {"microseconds": 1}, {"weeks": 1}, {"weeks": -1}):
                out.append(dict(base, **t))
    return out


FLOAT_DAY_AMOUNTS = ({"days": -1.5}, {"days": 0.5}, {"weeks": -0.5}, {"weeks": 1.25, "days": -0.25}, {"months": -1, "days": -0.25},
                     {"years": 1, "months": 13, "days": 2.5, "hours": -1}, {"weeks": -1.5, "days": 0.25}, {"days": 1.0}, {"days": -2.75, "minutes": 30})


def check_float_days(acc, pendulum, z, f, kw):
    """Fractional (dyadic) days / weeks on receivers whose wall clock IS the elapsed clock (naive, UTC, fixed offsets): years
    and months are shifted with clamping, then the rest moves the clock by exactly that much."""
    import datetime as dt_
    from fractions import Fraction as Fr
    case = {"kind": "fdays", "z": z, "f": list(f), "kw": kw}
    tzobj = None if z is None else pendulum.timezone(z)
    x = pendulum.DateTime(*f, tzinfo=tzobj)
    neg = {k: -v for k, v in kw.items()}

    def want(sign):
        y, m, d = calref.add_months(f[0], f[1], f[2], sign * (12 * kw.get("years", 0) + kw.get("months", 0)))
        if not (1 <= y <= 9999):
            return None
        us = sign * (Fr(kw.get("weeks", 0)) * 7 * 86400 + Fr(kw.get("days", 0)) * 86400 + Fr(kw.get("hours", 0)) * 3600
                     + Fr(kw.get("minutes", 0)) * 60) * 10 ** 6
        assert us.denominator == 1
        n = dt_.datetime(y, m, d, *f[3:7]) + dt_.timedelta(microseconds=int(us))
        return [n.year, n.month, n.day, n.hour, n.minute, n.second, n.microsecond], z

    dur = pendulum.Duration(**kw)
    for name, sign, fn in (("add", 1, lambda: x.add(**kw)), ("subtract", -1, lambda: x.subtract(**kw)), ("add-negated", -1, lambda: x.add(**neg)),
                           ("dt+Duration", 1, lambda: x + dur), ("Duration+dt", 1, lambda: dur + x), ("dt-Duration", -1, lambda: x - dur),
                           ("dt-(-Duration)", 1, lambda: x - (-dur)), ("dt+(-Duration)", -1, lambda: x + (-dur))):
        exp = want(sign)
        if exp is None:
            continue
        acc.c["evaluations"] += 1
        acc.c["transitions"] += 1
        try:
            r = fn()
            got = [list(obs.fields(r)), (None if r.tzinfo is None else (r.timezone_name if not isinstance(z, int) else obs.offset_s(r)))]
        except Exception as e:  # noqa: BLE001
            got = f"raises {type(e).__name__}"
        if got != [exp[0], exp[1]]:
            acc.mismatch(name, "float-days", case, got, [exp[0], exp[1]])


def run_shard(shard):
    import pendulum
    acc = core.Acc(ID)
    if shard.get("kind") == "float-days":
        for z in (None, "UTC", 19800):
            for f in ((2021, 6, 15, 10, 0, 0, 0), (2020, 3, 31, 23, 59, 59, 999999), (2024, 2, 29, 0, 0, 0, 1), (2021, 1, 1, 0, 30, 0, 0)):
                for kw in FLOAT_DAY_AMOUNTS:
                    acc.c["states"] += 1
                    check_float_days(acc, pendulum, z, f, kw)
        acc.sample({"float_day_amounts": list(FLOAT_DAY_AMOUNTS[:3])})
        return acc.result()
    if shard.get("kind") == "chains":
        from .. import chain
        for sd in shard["seeds"]:
            with worker.guarded(acc, "chain", {"kind": "chain", "z": sd["z"], "inst": sd["inst"], "zones": sd["zones"]}, 300):
                chain.explore(acc, pendulum, sd["z"], sd["inst"], sd["zones"], shard["depth"], {'cal'})
            acc.c["nontrivial"] += 1
        acc.sample({"chain_seed": [shard["seeds"][0]["z"], obs.iso(shard["seeds"][0]["inst"])], "depth": shard["depth"],
                    "zones": [str(z) for z in shard["seeds"][0]["zones"]],
                    "ops": "in_timezone x zones, add/subtract hours/minutes/seconds, +/- timedelta, add days/weeks/months"})
        return acc.result()
    A = amounts(shard["thorough"])
    k = shard["kind"]
    if k == "calendar":
        for y in shard["years"]:
            for m in range(1, 13):
                dim = calref.days_in_month(y, m)
                for d in DAYS:
                    if d > dim:
                        continue
                    acc.c["states"] += 1
                    if d >= 28:
                        acc.c["nontrivial"] += 1
                    for i, kw in enumerate(A):
                        with worker.guarded(acc, "date-add", {"kind": "date", "f": [y, m, d], "kw": kw}):
                            check_date(acc, pendulum, (y, m, d), kw)
                        for z in shard["zones"]:
                            with worker.guarded(acc, "add", {"kind": "dt", "z": z, "f": [y, m, d, 13, 30, 15, 123456], "kw": kw}):
                                check_dt(acc, pendulum, z, (y, m, d, 13, 30, 15, 123456), kw,
                                         durations=(i % 3 == d % 3) or shard["thorough"])
                        if d >= 28 and i % 2 == m % 2:
                            # fixed-offset receivers whose UTC date is the next / previous day (and, at month ends, month)
                            for z, tod in ((-18000, (23, 30, 0, 5)), (19800, (1, 30, 0, 5))):
                                with worker.guarded(acc, "add", {"kind": "dt", "z": z, "f": [y, m, d, *tod], "kw": kw}):
                                    check_dt(acc, pendulum, z, (y, m, d) + tod, kw, durations=False)
        acc.sample({"start": [shard["years"][0], 1, 31], "amount": A[9], "zones": [str(z) for z in shard["zones"]]})
    elif k == "dst-target":
        # starts chosen so that the target wall time is skipped / repeated
        for z in shard["zones"]:
            trs = seeds.pick_transitions(seeds.zone_transitions(z), shard["limit"], shard["seed"]) \
                if shard["limit"] else seeds.zone_transitions(z)
            for tr in trs:
                for w in seeds.wall_probes(*tr):
                    tgt = seeds.fields_of_wall(w)
                    if not (3 <= tgt[0] <= 9996):
                        continue
                    acc.c["states"] += 1
                    acc.c["nontrivial"] += 1
                    for kw in A:
                        start = add_wall(tgt, kw, -1)
                        if start is None or add_wall(start, kw, 1) != tgt:
                            continue
                        with worker.guarded(acc, "add", {"kind": "dt", "z": z, "f": list(start), "kw": kw}):
                            check_dt(acc, pendulum, z, start, kw, durations=True)
                            check_dt(acc, pendulum, z, start, kw, durations=False, fold=0)
            acc.sample({"zone": z, "targets": "skipped/repeated wall times of its transitions"})
    return acc.result()


def replay_case(case, acc):
    import pendulum
    if case.get("kind") == "chain":
        from .. import chain
        chain.replay(acc, pendulum, case, {'cal'})
        return
    if case["kind"] == "fdays":
        check_float_days(acc, pendulum, case["z"], tuple(case["f"]), case["kw"])
        return
    if case["kind"] == "dt":
        check_dt(acc, pendulum, case["z"], tuple(case["f"]), case["kw"], durations=True, fold=case.get("fold", 1))
    else:
        check_date(acc, pendulum, tuple(case["f"]), case["kw"])


def plan(tier, seed):
    thorough = tier == "thorough"
    years = list(YEARS) + [1583 + (seed * 37) % 400, 2025 + seed % 50]
    zones = ["UTC", None, 19800] + (["Europe/Paris", "America/Sao_Paulo"] if thorough else [])
    shards = [{"kind": "calendar", "years": [y], "zones": zones, "thorough": thorough} for y in years]
    wz = [z for z in seeds.witness_zones(seed, 3) if z != "UTC"]
    shards += [{"kind": "dst-target", "zones": [z], "limit": 0 if thorough else 6, "seed": seed,
                "thorough": thorough} for z in wz]
    from .. import chain
    cs = chain.chain_seeds(seed, 3 if not thorough else 8)
    shards += [{"kind": "chains", "seeds": ch, "depth": 3, "thorough": thorough} for ch in seeds.chunks(cs, 32)]
    shards.append({"kind": "float-days", "thorough": thorough})
    return [({"ext": 1, "tz": "sys"}, shards)] + ([({"ext": 0, "tz": "pkg"}, shards)] if thorough else [])


def evidence(m, tier, seed):
    c = m.c
    return {"coverage": {
        "evaluations": c["evaluations"], "states": c["states"], "transitions": c["transitions"],
        "traces_validated_against_impl": c["transitions"],
        "distinct_nontrivial": c["nontrivial"],
        "rule": "state = start value: days {1,15,28,29,30,31} of every month of 14 years (all leap/century patterns, "
                "2 rotated by VERIF_SEED) as Date and as DateTime in UTC / naive / +05:30, plus, for the witness "
                "zones, starts computed so that start + amount is a skipped or repeated wall time of each selected "
                "transition; every state x the signed (years, months, days [, weeks, time]) alphabet x {add, "
                "subtract, add(-x), + Duration, - Duration, + (-d), subtract(components)}; non-trivial = starts on "
                "days 28-31 and DST-target starts",
        "exhaustive": True,
        "amount_alphabet_size": len(amounts(tier == "thorough")),
        "skipped_out_of_range": c["skipped_out_of_range"],
        "skipped_start_not_valid_wall": c["skipped_start_not_valid_wall"],
    }, "assumptions": ["reference TZif reader (validated against zoneinfo by ./check setup)"]}
