"""C15 - calendar primitives agree with the proleptic Gregorian calendar in both back ends.

Alphabet : is_leap / is_long_year / days_in_year (every year 1..9999), week_day (every date),
           local_time (day boundaries +-1 s over the whole range x offsets, full-day sweeps),
           Date/DateTime getters.
Oracle   : the standard library (datetime/calendar, named by the property) and Rust == Python;
           calref (closed form) as a second opinion for local_time outside datetime's range.
"""
from __future__ import annotations

import calendar
import datetime as dt_
import math

from .. import core
from ..ref import calref

ID = "C15"
DAY = 86400
OFFSETS = (0, 1, -1, 3600, -3600, 86399, -86399, 19800, -16200)


def _mods():
    import pendulum
    import pendulum._helpers as py
    try:
        import pendulum._pendulum as rs
    except ImportError:
        rs = None
    from ..worker import CTX
    if not CTX["config"].get("ext", 1):
        rs = None
    return pendulum, py, rs


# ------------------------------------------------------------------------------ case checkers

def _prim(fn, *a):
    """A primitive's answer, or how it failed (an exception - also a Rust panic - is an outcome, not a crash of the check)."""
    try:
        return fn(*a)
    except BaseException as e:  # noqa: BLE001
        from .. import worker
        if worker.is_control(e):
            raise
        return f"raises {type(e).__name__}"


def check_year(acc, y, mods):
    pendulum, py, rs = mods
    exp_leap = calref.is_leap(y)
    exp_long = dt_.date(y, 12, 28).isocalendar()[1] == 53
    exp_days = (dt_.date(y, 12, 31) - dt_.date(y, 1, 1)).days + 1
    case = {"kind": "year", "y": y}
    for name, be in (("py", py), ("rs", rs)):
        if be is None:
            continue
        acc.count("evaluations", 3)
        got = (_prim(be.is_leap, y), _prim(be.is_long_year, y), _prim(be.days_in_year, y))
        if got != (exp_leap, exp_long, exp_days):
            sub = ["is_leap", "is_long_year", "days_in_year"][
                [a == b for a, b in zip(got, (exp_leap, exp_long, exp_days))].index(False)]
            acc.mismatch(f"{sub}.{name}", "vs-stdlib", case, got, (exp_leap, exp_long, exp_days))
    return exp_leap, exp_long


def check_date_fn(acc, y, m, d, mods, exp_wd=None):
    """week_day in both back ends against date.isoweekday()."""
    pendulum, py, rs = mods
    if exp_wd is None:
        exp_wd = dt_.date(y, m, d).isoweekday()
    a = _prim(py.week_day, y, m, d)
    acc.c["evaluations"] += 1
    if a != exp_wd:
        acc.mismatch("week_day.py", "vs-stdlib", {"kind": "date", "y": y, "m": m, "d": d}, a, exp_wd)
    if rs is not None:
        b = _prim(rs.week_day, y, m, d)
        acc.c["evaluations"] += 1
        if b != exp_wd:
            acc.mismatch("week_day.rs", "vs-stdlib", {"kind": "date", "y": y, "m": m, "d": d}, b, exp_wd)


GETTERS = {"day_of_week": lambda o: int(o.day_of_week), "day_of_year": lambda o: o.day_of_year,
           "week_of_year": lambda o: o.week_of_year, "week_of_month": lambda o: o.week_of_month,
           "days_in_month": lambda o: o.days_in_month, "quarter": lambda o: o.quarter,
           "is_leap_year": lambda o: o.is_leap_year(), "is_long_year": lambda o: o.is_long_year()}


def _read_getters(o):
    out = {}
    for k, fn in GETTERS.items():
        try:
            out[k] = fn(o)
        except Exception as e:  # noqa: BLE001
            out[k] = f"raises {type(e).__name__}"
    return out


def _week_of_month(y, m, d):
    """Row (1-based) of day d in the Monday-first grid of the month - own integer arithmetic (the stdlib `calendar` module keeps
    its month lengths in a mutable module-level list, so it is not used as an oracle)."""
    first_wd = calref.iso_weekday(y, m, 1) - 1          # 0 = Monday
    return (d - 1 + first_wd) // 7 + 1


def check_getters(acc, y, m, d, mods, with_datetime=False):
    pendulum, py, rs = mods
    nd = dt_.date(y, m, d)
    iso = nd.isocalendar()
    wom = _week_of_month(y, m, d)
    exp = {
        "day_of_week": nd.weekday(),
        "day_of_year": nd.timetuple().tm_yday,
        "week_of_year": iso[1],
        "week_of_month": wom,
        "days_in_month": calref.days_in_month(y, m),
        "quarter": (m + 2) // 3,
        "is_leap_year": calref.is_leap(y),
        "is_long_year": dt_.date(y, 12, 28).isocalendar()[1] == 53,
    }
    objs = [("Date", pendulum.Date(y, m, d))]
    if with_datetime:
        objs.append(("DateTime", pendulum.DateTime(y, m, d, 12, 30, tzinfo=pendulum.UTC)))
        objs.append(("DateTime.naive", pendulum.DateTime(y, m, d, 23, 59, 59, 999999)))
    for label, o in objs:
        got = _read_getters(o)
        acc.c["evaluations"] += 8
        if got != exp:
            for k in exp:
                if got[k] != exp[k]:
                    acc.mismatch(f"getter.{k}", label, {"kind": "getters", "y": y, "m": m, "d": d,
                                                        "dt": with_datetime}, got[k], exp[k])


AWARE_ZONES = ("Asia/Tokyo", "Pacific/Auckland", "America/Los_Angeles", "Asia/Kolkata")


def check_getters_obj(acc, o, case):
    y, m, d = o.year, o.month, o.day
    nd = dt_.date(y, m, d)
    exp = {"day_of_week": nd.weekday(), "day_of_year": nd.timetuple().tm_yday, "week_of_year": nd.isocalendar()[1],
           "week_of_month": _week_of_month(y, m, d),
           "days_in_month": calref.days_in_month(y, m), "quarter": (m + 2) // 3, "is_leap_year": calref.is_leap(y),
           "is_long_year": dt_.date(y, 12, 28).isocalendar()[1] == 53}
    got = _read_getters(o)
    acc.c["evaluations"] += 8
    for k in exp:
        if got[k] != exp[k]:
            acc.mismatch(f"getter.{k}", "DateTime.aware", dict(case, local=[y, m, d]), got[k], exp[k])


def expected_local_time(t, off):
    days, sod = divmod(t + off, DAY)
    y, m, d = calref.civil_from_days(days)
    return (y, m, d, sod // 3600, sod % 3600 // 60, sod % 60)


_EPOCH = dt_.datetime(1970, 1, 1)
_TMIN = calref.days_from_civil(1, 1, 1) * DAY
_TMAX = calref.days_from_civil(9999, 12, 31) * DAY + DAY - 1


def check_local_time(acc, t, off, us, mods, stdlib=True):
    pendulum, py, rs = mods
    if not (_TMIN <= t + off <= _TMAX):
        return
    exp = expected_local_time(t, off) + (us,)
    if stdlib:
        n = _EPOCH + dt_.timedelta(seconds=t + off)
        e2 = (n.year, n.month, n.day, n.hour, n.minute, n.second, us)
        if e2 != exp:   # the two oracles must agree with each other
            raise AssertionError(f"reference models disagree at {t}+{off}: {exp} {e2}")
    case = {"kind": "lt", "t": t, "off": off, "us": us}
    a = _prim(lambda: tuple(py.local_time(t, off, us)))
    acc.c["evaluations"] += 1
    if a != exp:
        acc.mismatch("local_time.py", "vs-stdlib", case, a, exp)
    if rs is not None:
        b = _prim(lambda: tuple(rs.local_time(t, off, us)))
        acc.c["evaluations"] += 1
        if b != exp:
            acc.mismatch("local_time.rs", "vs-stdlib", case, b, exp)
    # the name the library itself imports (pendulum.helpers.local_time: whichever back end is configured, through any wrapper)
    import pendulum.helpers as ph
    c = _prim(lambda: tuple(ph.local_time(t, off, us)))
    acc.c["evaluations"] += 1
    if c != exp:
        acc.mismatch("local_time.public", "vs-stdlib", case, c, exp)


# ------------------------------------------------------------------------------ shards

def run_shard(shard):
    acc = core.Acc(ID)
    mods = _mods()
    kind = shard["kind"]
    if kind == "years":
        getter_every = shard["getter_every"]
        full_years = set(shard["full_years"])
        for y in range(shard["y0"], shard["y1"]):
            leap, long_ = check_year(acc, y, mods)
            acc.c["states"] += 1
            if leap or long_:
                acc.c["nontrivial"] += 1
            n0 = calref.days_from_civil(y, 1, 1)
            wd = dt_.date(y, 1, 1).isoweekday()
            for m in range(1, 13):
                dim = calref.days_in_month(y, m)
                for d in range(1, dim + 1):
                    check_date_fn(acc, y, m, d, mods, exp_wd=wd)
                    acc.c["states"] += 1
                    k = n0
                    n0 += 1
                    edge = d == 1 or d >= dim - 1 or (m == 2 and d >= 28)
                    if edge:
                        acc.c["nontrivial"] += 1
                    if getter_every == 1 or y in full_years or edge or k % getter_every == 0:
                        check_getters(acc, y, m, d, mods, with_datetime=(k % 5 == 0))
                        acc.c["transitions"] += 1
                    wd = wd % 7 + 1
        acc.sample({"kind": "years", "range": [shard["y0"], shard["y1"]]})
    elif kind == "aware_getters":
        # the getters on aware DateTimes: the SAME instant shown in several zones, one after the other in one process
        # (the values are equal and hash-equal across zones, their local dates are not)
        pendulum = mods[0]
        zones = [pendulum.UTC] + [pendulum.timezone(z) for z in AWARE_ZONES]
        for h in range(shard["h0"], shard["h1"], shard["step"]):
            u = pendulum.DateTime(1970, 1, 1, tzinfo=pendulum.UTC).add(hours=h, minutes=30)
            acc.c["states"] += 1
            for tz in zones:
                x = u.in_timezone(tz)
                check_getters_obj(acc, x, {"kind": "aware", "h": h, "tz": tz.name})
                acc.c["transitions"] += 1
        # whole months, at noon, in zones whose spring change skips 00:00 of the first day of the month (and a plain control)
        for zn, y, m in (("America/Asuncion", 2017, 10), ("America/Asuncion", 2023, 10), ("Asia/Amman", 2016, 4), ("America/Sao_Paulo", 2015, 11),
                         ("America/Santiago", 2019, 9), ("Europe/Paris", 2021, 3)):
            tzm = pendulum.timezone(zn)
            for d in range(1, calref.days_in_month(y, m) + 1):
                for hh, fold in ((12, 1), (0, 1), (23, 0)):
                    x = pendulum.DateTime.create(y, m, d, hh, 30, tz=tzm, fold=fold)
                    check_getters_obj(acc, x, {"kind": "aware", "h": None, "tz": zn, "ymd": [y, m, d, hh]})
                    acc.c["transitions"] += 1
        acc.c["nontrivial"] += 1
        acc.sample({"kind": "aware_getters", "hours_since_epoch": [shard["h0"], shard["h1"]], "zones": ["UTC"] + list(AWARE_ZONES)})
    elif kind == "lt_days":
        step = shard["step"]
        for n in range(shard["d0"], shard["d1"], step):
            base = n * DAY
            for off in shard["offsets"]:
                for delta in (-1, 0, 1):
                    check_local_time(acc, base + delta - off, off, (n * 7919) % 1000000, mods)
                    acc.c["transitions"] += 1
            acc.c["states"] += 1
            acc.c["nontrivial"] += 1
        acc.sample({"kind": "lt", "t": shard["d0"] * DAY - 1, "off": 0})
    elif kind == "lt_sweep":
        # one whole day at every second
        base = shard["day"] * DAY
        for off in shard["offsets"]:
            for s in range(0, DAY, shard["sstep"]):
                check_local_time(acc, base + s, off, s % 1000000, mods)
                acc.c["transitions"] += 1
        acc.c["states"] += 1
        # the epoch itself and its neighbours (falsy / negative arguments) at every offset
        for off in shard["offsets"]:
            for t in (0, -1, 1, -off, -off - 1):
                check_local_time(acc, t, off, 0, mods)
                check_local_time(acc, t, off, 999999, mods)
        # float timestamps with a fraction (floor semantics, also for negatives)
        for off in (0, -3600):
            for frac in (0.25, 0.5, 0.999999):
                t = base + frac
                exp = expected_local_time(math.floor(t), off) + (5,)
                if _TMIN <= math.floor(t) + off <= _TMAX:
                    pendulum, py, rs = mods
                    for nm, be in (("py", py), ("rs", rs)):
                        if be is None:
                            continue
                        got = _prim(lambda: tuple(be.local_time(t, off, 5)))
                        acc.c["evaluations"] += 1
                        if got != exp:
                            acc.mismatch(f"local_time.{nm}", "float-floor",
                                         {"kind": "ltf", "t": t, "off": off, "us": 5}, got, exp)
    return acc.result()


def replay_case(case, acc):
    mods = _mods()
    k = case["kind"]
    if k == "year":
        check_year(acc, case["y"], mods)
    elif k == "date":
        check_date_fn(acc, case["y"], case["m"], case["d"], mods)
    elif k == "getters":
        check_getters(acc, case["y"], case["m"], case["d"], mods, with_datetime=True)
    elif k == "aware":
        pendulum = mods[0]
        u = pendulum.DateTime(1970, 1, 1, tzinfo=pendulum.UTC).add(hours=case["h"], minutes=30)
        for tz in [pendulum.UTC] + [pendulum.timezone(z) for z in AWARE_ZONES]:     # the same order as the shard
            check_getters_obj(acc, u.in_timezone(tz), {"kind": "aware", "h": case["h"], "tz": tz.name})
    elif k == "lt":
        check_local_time(acc, case["t"], case["off"], case["us"], mods)
    elif k == "ltf":
        pendulum, py, rs = mods
        exp = expected_local_time(math.floor(case["t"]), case["off"]) + (case["us"],)
        for nm, be in (("py", py), ("rs", rs)):
            if be is None:
                continue
            got = tuple(be.local_time(case["t"], case["off"], case["us"]))
            if got != exp:
                acc.mismatch(f"local_time.{nm}", "float-floor", case, got, exp)


# ------------------------------------------------------------------------------ plan / evidence

def plan(tier, seed):
    thorough = tier == "thorough"
    full_years = [1, 4, 100, 400, 1582, 1600, 1900, 1970, 2000, 2020, 2024, 2100, 9999]
    full_years += [1 + (seed * 7 + i * 1201) % 9999 for i in range(4)]
    ybatch = 100
    shards = []
    for y0 in range(1, 10000, ybatch):
        shards.append({"kind": "years", "y0": y0, "y1": min(y0 + ybatch, 10000),
                       "getter_every": 1 if thorough else 37,
                       "full_years": [y for y in full_years if y0 <= y < y0 + ybatch]})
    d_lo = calref.days_from_civil(1, 1, 2)
    d_hi = calref.days_from_civil(9999, 12, 31)
    nb = 64
    span = (d_hi - d_lo) // nb + 1
    for i in range(nb):
        shards.append({"kind": "lt_days", "d0": d_lo + i * span, "d1": min(d_lo + (i + 1) * span, d_hi),
                       "step": 1 if thorough else 5,
                       "offsets": list(OFFSETS if thorough else OFFSETS[:5])})
    # full-day sweeps: one day per century (thorough) / per 4 centuries (quick), rotated by the seed
    for c in range(0, 100, 1 if thorough else 4):
        y = max(1, c * 100 + (seed * 13 + c * 7) % 100)
        m = 1 + (seed + c) % 12
        d = 1 + (seed * 3 + c) % 28
        day = calref.days_from_civil(y, m, d)
        if d_lo < day < d_hi:
            shards.append({"kind": "lt_sweep", "day": day, "sstep": 1 if thorough else 7,
                           "offsets": [0, 3600, -3600, 86399, -86399] if thorough else [0, -86399, 86399]})
    # leap-day sweeps always
    for y in (1600, 1900, 2000, 2024):
        shards.append({"kind": "lt_sweep", "day": calref.days_from_civil(y, 2, 28) + 1, "sstep": 11,
                       "offsets": [0, 1, -1, 86399, -86399]})
    # aware receivers: every 5th (thorough: every) hour of 2023-2025 (+ one seed-rotated year) shown in 5 zones
    for y in (2023, 2024, 2025, 1972 + (seed * 11) % 120):
        h0 = (calref.days_from_civil(y, 1, 1) - calref.days_from_civil(1970, 1, 1)) * 24
        shards.append({"kind": "aware_getters", "h0": h0, "h1": h0 + 366 * 24, "step": 1 if thorough else 5})
    return [({"ext": 1, "tz": "sys"}, shards), ({"ext": 0, "tz": "sys"}, shards)]


def evidence(m, tier, seed):
    c = m.c
    return {
        "coverage": {
            "evaluations": c["evaluations"],
            "states": c["states"],
            "transitions": c["transitions"],
            "traces_validated_against_impl": c["transitions"],
            "distinct_nontrivial": c["nontrivial"],
            "rule": "states = years 1..9999 + every proleptic Gregorian date + every day boundary probed by "
                    "local_time, per back-end configuration; transitions = getter bundles and local_time "
                    "calls compared with the reference; non-trivial = leap/long years, month edges "
                    "(day 1, last two days, Feb 28/29) and day-boundary probes",
            "exhaustive": True,
            "exhaustive_subdomains": {
                "years_1_9999(is_leap,is_long_year,days_in_year)": True,
                "all_3652059_dates(week_day both back ends)": True,
                "date_getters_all_dates": tier == "thorough",
                "local_time_every_day_boundary": tier == "thorough",
            },
            "caps": "quick: getters on every 37th day + month edges + 17 full years; local_time on every 5th "
                    "day boundary x 5 offsets; thorough: everything",
        },
        "assumptions": ["stdlib datetime/calendar implement the proleptic Gregorian calendar",
                        "reference calref cross-checked against stdlib on every local_time probe"],
    }
