"""C12 - start_of / end_of delimit exactly the calendar unit that contains the value.

Model state : (instant, zone).  Implementation states: the same value obtained by several routes (constructed
              with fold 0 / fold 1, converted from UTC, produced by arithmetic), so one model state has several
              implementation states that must behave alike.
Operations  : start_of(u) / end_of(u) for 9 units, applied twice (idempotence); `week` under the 7 consistent
              (week_starts_at, week_ends_at) configurations; Date for its 6 units.
Oracle      : exactly the stated clauses, evaluated with calref on the tzref rendering: same unit key as x;
              start <= x <= end as instants; the rendering of start-1us / end+1us has a different key; zone kept;
              idempotent; route independent; terminates (horizon).
"""
from __future__ import annotations

from .. import core, known, obs, seeds, worker
from ..ref import calref, tzref

ID = "C12"
AMBIENT = {"locale": "fr"}     # this module varies the other setting itself
US = 1_000_000
UNITS = ("second", "minute", "hour", "day", "week", "month", "year", "decade", "century")
DATE_UNITS = ("day", "week", "month", "year", "decade", "century")
_TZ = {}


def _tz(pendulum, z):
    t = _TZ.get(z)
    if t is None:
        t = _TZ[z] = pendulum.timezone(z)
    return t


def unit_key(f, unit, ws=0):
    y, m, d = f[0], f[1], f[2]
    if unit == "second":
        return f[:6]
    if unit == "minute":
        return f[:5]
    if unit == "hour":
        return f[:4]
    if unit == "day":
        return f[:3]
    if unit == "week":
        n = calref.days_from_civil(y, m, d)
        wd = (n + 3) % 7          # 0 = Monday
        return n - (wd - ws) % 7
    if unit == "month":
        return f[:2]
    if unit == "year":
        return y
    if unit == "decade":
        return y // 10
    if unit == "century":
        return (y - 1) // 100
    raise KeyError(unit)


def boundary_wall(f, unit, which, ws=0):
    """The wall-clock fields the implementation asks for (used only by the known-finding predicate)."""
    y, m, d, hh, mm, ss, us = f
    lo = which == "start"
    if unit == "second":
        return (y, m, d, hh, mm, ss, 0 if lo else 999999)
    if unit == "minute":
        return (y, m, d, hh, mm, 0 if lo else 59, 0 if lo else 999999)
    if unit == "hour":
        return (y, m, d, hh, 0 if lo else 59, 0 if lo else 59, 0 if lo else 999999)
    t = (0, 0, 0, 0) if lo else (23, 59, 59, 999999)
    if unit == "day":
        return (y, m, d) + t
    if unit == "month":
        return (y, m, 1 if lo else calref.days_in_month(y, m)) + t
    if unit == "year":
        return ((y, 1, 1) if lo else (y, 12, 31)) + t
    if unit == "decade":
        y0 = y - y % 10
        return ((y0, 1, 1) if lo else (y0 + 9, 12, 31)) + t
    if unit == "century":
        y0 = y - 1 - (y - 1) % 100 + 1
        return ((y0, 1, 1) if lo else (y0 + 99, 12, 31)) + t
    if unit == "week":
        n = calref.days_from_civil(y, m, d)
        wd = (n + 3) % 7
        n2 = n - (wd - ws) % 7 if lo else n + (((ws + 6) % 7) - wd) % 7
        return calref.civil_from_days(n2) + t
    raise KeyError(unit)


def _wall_kind(z, f):
    if z is None or isinstance(z, int):
        return "unique"
    if not (1 <= f[0] <= 9999):
        return "unique"
    n = len(tzref.zone(z).solve(obs.wall_us(f) // US))
    return "skipped" if n == 0 else "repeated" if n >= 2 else "unique"


def kf_boundary(z, x, unit, which, r, ws):
    """C12-boundary-anomaly (units other than week): the unit's boundary wall time is skipped or repeated in
    the zone AND the result is exactly the C02 normalisation of that wall time with the receiver's fold
    (set()/at() forward self.fold to create())."""
    if z is None or isinstance(z, int) or r is None or unit == "week":
        return False
    bw = boundary_wall(obs.fields(x), unit, which, ws)
    if not (2 <= bw[0] <= 9998):
        return False
    if _wall_kind(z, bw) == "unique":
        return False
    kind, inst = tzref.normalize(tzref.zone(z), bw, x.fold)
    if inst is None:
        return False
    return (obs.fields(r), obs.offset_s(r)) == obs.expected_render(z, inst)


def kf_week_anomaly(z, x, which, ws):
    """C12-week-day-anomaly: start_of/end_of('week') walk day by day with previous()/next(); the finding is
    listed for values for which one of the (at most 8) local days walked, or the boundary day itself, has a
    skipped or repeated 00:00:00 / 23:59:59.999999 wall time or is skipped entirely."""
    if z is None or isinstance(z, int):
        return False
    f = obs.fields(x)
    n0 = calref.days_from_civil(f[0], f[1], f[2])
    for k in range(-8, 9):
        y, m, d = calref.civil_from_days(n0 + k)
        if not (2 <= y <= 9998):
            continue
        for t in ((0, 0, 0, 0), (23, 59, 59, 999999), f[3:7]):
            if _wall_kind(z, (y, m, d) + tuple(t)) != "unique":
                return True
    return False


def _canon(z, r):
    """A result must be a canonical rendering of its own instant."""
    if z is None:
        return True
    return (obs.fields(r), obs.offset_s(r)) == obs.expected_render(z, obs.instant_us(r))


def routes(pendulum, z, inst):
    """Implementation states for the model state (inst, z): [(route name, DateTime)]."""
    if z is None:
        return [("naive", pendulum.DateTime(*seeds.fields_of_wall(inst)))]
    tzobj = _tz(pendulum, z)
    base = obs.utc_dt(pendulum, inst).in_timezone(tzobj)
    out = [("converted", base)]
    f = obs.fields(base)
    for fold in (0, 1):
        c = pendulum.DateTime.create(*f, tz=tzobj, fold=fold)
        if obs.instant_us(c) == inst and obs.fields(c) == f:
            out.append((f"constructed-fold{fold}", c))
    a = base.subtract(hours=3).add(hours=3)
    if obs.instant_us(a) == inst:
        out.append(("arithmetic", a))
    # the same value obtained by PARSING its calendar, ordinal and week-date spellings in the zone (tz option)
    import datetime as dt_
    nd = dt_.date(f[0], f[1], f[2])
    iy, iw, iwd = nd.isocalendar()
    tail = "T%02d:%02d:%02d.%06d" % tuple(f[3:7])
    spellings = (("parsed-calendar", "%04d-%02d-%02d" % tuple(f[:3]) + tail), ("parsed-week-date", "%04d-W%02d-%d" % (iy, iw, iwd) + tail),
                 ("parsed-ordinal", "%04d-%03d" % (f[0], nd.timetuple().tm_yday) + tail))
    # one spelling per state (rotating); the week date always where its year differs from the calendar year
    pick = {inst // US % 3} | ({1} if iy != f[0] else set())
    for pname, text in [sp for i, sp in enumerate(spellings) if i in pick]:
        try:
            c = pendulum.parse(text, tz=tzobj)
        except Exception:  # noqa: BLE001
            continue       # C07's business
        if obs.instant_us(c) == inst and obs.fields(c) == f:
            out.append((pname, c))
        elif len(tzref.zone(z).solve(obs.wall_us(f) // US)) == 1:
            out.append((pname + "/DIFFERENT-VALUE", c))     # an unambiguous spelling of this very value came back as another one
    # a text that carries its own offset denotes that offset's value whatever `tz=` option accompanies it
    off = z if isinstance(z, int) else (0 if z == "UTC" else None)
    if off is not None and off % 60 == 0 and abs(off) < 86400:
        sign = "-" if off < 0 else "+"
        otxt = "Z" if (off == 0 and inst // US % 2) else "%s%02d:%02d" % (sign, abs(off) // 3600, abs(off) // 60 % 60)
        text = "%04d-%02d-%02d" % tuple(f[:3]) + tail + otxt
        for oname, opt in (("parsed-offset+tz-name", "Asia/Tokyo"), ("parsed-offset+tz-object", _tz(pendulum, "America/New_York"))):
            try:
                c = pendulum.parse(text, tz=opt)
            except Exception:  # noqa: BLE001
                continue
            out.append((oname if (obs.instant_us(c) == inst and obs.fields(c) == f) else oname + "/DIFFERENT-VALUE", c))
    # the same value carrying a tzinfo that is not a pendulum timezone (raw constructor / fromisoformat / astimezone(<foreign>))
    import zoneinfo
    fz = dt_.timezone(dt_.timedelta(seconds=z)) if isinstance(z, int) else zoneinfo.ZoneInfo(z)
    fx = pendulum.DateTime(*f, tzinfo=fz, fold=base.fold)
    if obs.instant_us(fx) == inst:
        out.append(("foreign-tzinfo", fx))
    return out


def kf_week_model(z, recv, which, ws, status, res):
    """The week finding applies only if the receiver is in the anomalous class AND the observation is exactly what the
    day-walking composition (navmodel) produces for it."""
    if not kf_week_anomaly(z, recv, which, ws):
        return False
    from . import navmodel
    seen = ("ok", obs.fields(res), obs.offset_s(res)) if status == "ok" and res is not None else (status,)
    model = navmodel.emulate(z, obs.fields(recv), recv.fold, f"{which}_of_week", ws=ws, we=(ws + 6) % 7)
    return model == seen


def _apply(x, which, unit):
    worker.horizon(0.5)
    try:
        return "ok", (x.start_of(unit) if which == "start" else x.end_of(unit))
    except worker.Hang:
        return "HANG", None
    except Exception as e:  # noqa: BLE001
        return type(e).__name__, None
    finally:
        worker.horizon(worker.SHARD_WATCHDOG)


def check_state(acc, pendulum, z, inst, units=UNITS, ws=0, rs=None, tag=None):
    rs = routes(pendulum, z, inst) if rs is None else rs
    ref_f = seeds.fields_of_wall(inst) if z is None else obs.expected_render(z, inst)[0]
    acc.c["impl_states"] += len(rs)
    for rname, x in rs:
        if rname.endswith("/DIFFERENT-VALUE"):
            acc.mismatch("route", "parsed-value-is-another-instant", {"kind": "state", "z": z, "inst": inst, "unit": "day", "which": "start", "route": rname, "ws": ws},
                         [obs.fields(x), obs.offset_s(x)], [ref_f, "same instant"])
    rs = [r for r in rs if not r[0].endswith("/DIFFERENT-VALUE")]
    firstpass = {}
    for unit in units:
        kx = unit_key(ref_f, unit, ws)
        for which in ("start", "end"):
            if not (2 <= boundary_wall(ref_f, unit, which, ws)[0] <= 9998):
                acc.c["skipped_boundary_out_of_range"] += 1
                continue
            results = []
            sub = f"{which}_of"
            for rname, x in rs:
                case = {"kind": "state", "z": z, "inst": inst, "unit": unit, "which": which, "route": rname, "ws": ws}
                if tag:
                    case["keyless"] = tag
                status, r = _apply(x, which, unit)
                acc.c["evaluations"] += 1
                acc.c["transitions"] += 1

                def kf_of(recv, res, st="ok"):
                    # evaluated lazily: only when something is wrong
                    if unit == "week":
                        return "C12-week-day-anomaly" if kf_week_model(z, recv, which, ws, st, res) else None
                    return "C12-boundary-anomaly" if kf_boundary(z, recv, unit, which, res, ws) else None

                if status != "ok":
                    acc.mismatch(sub, f"{unit}/{status}", case, status, "a value", kf=kf_of(x, None, status))
                    results.append((x, None))
                    if status == "HANG":
                        acc.c["routes_skipped_after_hang"] += 1
                        break      # one non-terminating route per (state, unit) is enough: each costs a horizon
                    continue
                problems = []
                want_name = x.timezone_name if (z is None or x.timezone_name) else _tz(pendulum, z).name        # a foreign tzinfo's zone is kept as its pendulum equivalent
                if type(r) is not pendulum.DateTime or r.timezone_name != want_name:
                    problems.append(("zone-or-type", [type(r).__name__, r.timezone_name], ["DateTime", want_name]))
                if not _canon(z, r):
                    problems.append(("not-a-valid-local-time", [obs.fields(r), obs.offset_s(r)], "canonical rendering"))
                ri = obs.instant_us(r)
                if unit_key(obs.fields(r), unit, ws) != kx:
                    problems.append(("different-unit", obs.fields(r), f"unit of {ref_f}"))
                if which == "start":
                    if ri > inst:
                        problems.append(("after-x", ri - inst, "<= 0"))
                    nb = ri - 1
                else:
                    if ri < inst:
                        problems.append(("before-x", ri - inst, ">= 0"))
                    nb = ri + 1
                nf = seeds.fields_of_wall(nb) if z is None else obs.expected_render(z, nb)[0]
                if 1 <= nf[0] <= 9999 and unit_key(nf, unit, ws) == kx and not problems:
                    problems.append(("not-first" if which == "start" else "not-last", obs.fields(r),
                                     "neighbour outside the unit"))
                if problems:
                    kf = kf_of(x, r)
                    for cls, got, want in problems:
                        acc.mismatch(sub, f"{unit}/{cls}", case, got, want, kf=kf)
                # idempotence
                s2, r2 = _apply(r, which, unit)
                acc.c["transitions"] += 1
                if s2 != "ok" or obs.obs_key(r2) != obs.obs_key(r):
                    kf2 = kf_of(x, r) or (kf_of(r, r2, s2) if s2 == "ok" or unit == "week" else None)
                    acc.mismatch(sub, f"{unit}/not-idempotent", case,
                                 s2 if s2 != "ok" else obs.obs_key(r2), obs.obs_key(r), kf=kf2)
                results.append((x, r))
                if rs and x is rs[0][1] and r is not None:
                    firstpass[(unit, which)] = (obs.fields(r), obs.offset_s(r))
            # route independence: one result for one (instant, zone)
            vals = {(obs.fields(r), obs.offset_s(r)) for _, r in results if r is not None}
            if len(vals) > 1 or (vals and any(r is None for _, r in results)):
                kf = None
                if unit == "week":
                    if all((kf_week_model(z, x, which, ws, "ok", r) if r is not None else kf_week_anomaly(z, x, which, ws))
                           for x, r in results):
                        kf = "C12-week-day-anomaly"
                elif all(r is not None and kf_boundary(z, x, unit, which, r, ws) for x, r in results):
                    kf = "C12-boundary-anomaly"    # every route's result is the model's value for its own fold
                acc.mismatch(sub, f"{unit}/route-dependent",
                             {"kind": "state", "z": z, "inst": inst, "unit": unit, "which": which, "route": "*", "ws": ws},
                             sorted(str(v) for v in vals), "one result for one (instant, zone)", kf=kf)
    _check_reuse(acc, rs, firstpass, z, inst, ws)


def _check_reuse(acc, rs, firstpass, z, inst, ws):
    """The receiver object of the first route is asked AGAIN, from the largest unit down (each call now rewrites fewer fields
    than the one before it on the same object): the answers of the first pass."""
    if not rs:
        return
    x = rs[0][1]
    for (unit, which), want in sorted(firstpass.items(), key=lambda kv: -UNITS.index(kv[0][0]) if kv[0][0] in UNITS else 0):
        if unit == "week":
            continue
        status, r = _apply(x, which, unit)
        acc.c["evaluations"] += 1
        acc.c["transitions"] += 1
        got = (obs.fields(r), obs.offset_s(r)) if status == "ok" and r is not None else status
        if got != want:
            acc.mismatch(f"{which}_of", f"{unit}/receiver-reused", {"kind": "state", "z": z, "inst": inst, "unit": unit, "which": which,
                                                                   "route": rs[0][0], "ws": ws, "reuse": True}, got, want)


def check_date(acc, pendulum, n, ws):
    y, m, d = calref.civil_from_days(n)
    x = pendulum.Date(y, m, d)
    f = (y, m, d, 0, 0, 0, 0)
    for unit in DATE_UNITS:
        for which in ("start", "end"):
            case = {"kind": "date", "n": n, "unit": unit, "which": which, "ws": ws}
            if not (1 <= boundary_wall(f, unit, which, ws)[0] <= 9999):
                continue
            status, r = _apply(x, which, unit)
            acc.c["evaluations"] += 1
            acc.c["transitions"] += 1
            if status != "ok":
                acc.mismatch(f"date-{which}_of", f"{unit}/{status}", case, status, "a value")
                continue
            e = boundary_wall(f, unit, which, ws)[:3]
            got = (r.year, r.month, r.day)
            if got != e or type(r) is not pendulum.Date:
                acc.mismatch(f"date-{which}_of", unit, case, got, e)
            rn = calref.days_from_civil(*got)
            nb = rn - 1 if which == "start" else rn + 1
            nbf = calref.civil_from_days(nb) + (0, 0, 0, 0)
            if 1 <= nbf[0] <= 9999 and unit_key(nbf, unit, ws) == unit_key(f, unit, ws):
                acc.mismatch(f"date-{which}_of", f"{unit}/neighbour", case, got, "neighbour outside")


def _set_week(pendulum, ws, plain_int=None):
    """week_starts_at()/week_ends_at() accept WeekDay members and plain ints alike: odd settings are given as ints
    (and so is the numerically-default 0 when asked for explicitly)."""
    if plain_int is None:
        plain_int = ws % 2 == 1
    if plain_int:
        pendulum.week_starts_at(int(ws))
        pendulum.week_ends_at(int((ws + 6) % 7))
    else:
        pendulum.week_starts_at(pendulum.WeekDay(ws))
        pendulum.week_ends_at(pendulum.WeekDay((ws + 6) % 7))
    # a REJECTED setting (out of range: ValueError) leaves the accepted one in force
    for bad in (7, -1):
        for setter in (pendulum.week_starts_at, pendulum.week_ends_at):
            try:
                setter(bad)
            except ValueError:
                pass
    import calendar as _calendar
    _calendar.setfirstweekday(int(ws))     # the stdlib's own process-wide first weekday travels with it


def anomalous_transitions(z):
    """Transitions whose skipped/repeated wall interval touches a day boundary (00:00 or 23:59:59.999999)."""
    out = []
    for t, ob, oa in seeds.zone_transitions(z):
        lo, hi = (t + min(ob, oa)), (t + max(ob, oa))
        if lo // 86400 != (hi - 1) // 86400 or lo % 86400 == 0 or hi % 86400 == 0:
            out.append((t, ob, oa))
    return out


def state_instants(tr, full):
    t, ob, oa = tr
    g = abs(oa - ob)
    T = t * US
    ps = [T - 1, T, T + 1, T - g * US, T + g * US - 1, T - 5 * 3600 * US, T + 7 * 3600 * US + 1234567]
    if full:
        ps += [T + g * US, T - g * US - 1, T + 5 * 3600 * US, T - 7 * 3600 * US, T + 20 * 3600 * US, T - 20 * 3600 * US]
    return ps


def run_shard(shard):
    import pendulum
    acc = core.Acc(ID)
    k = shard["kind"]
    try:
        if k == "zones":
            for z in shard["zones"]:
                if z is None or isinstance(z, int):
                    sts = [(None, i) for i in seeds.grid_instants(370)[::4]]
                    trs = []
                else:
                    alltr = seeds.zone_transitions(z)
                    trs = seeds.pick_transitions(alltr, shard["limit"], shard["seed"]) if shard["limit"] else alltr
                    extra = [tr for tr in anomalous_transitions(z) if tr not in trs]
                    if shard["limit"]:
                        extra = seeds.pick_transitions(extra, shard["limit"] * 2, shard["seed"])
                    trs = trs + extra
                    sts = [(tr, i) for tr in trs for i in state_instants(tr, shard["full"])]
                    sts += [(None, i) for i in seeds.grid_instants(740)]
                for tr, inst in sts:
                    if not (tzref.MIN_T * US < inst < tzref.MAX_T * US):
                        continue
                    acc.c["states"] += 1
                    if tr is not None:
                        acc.c["nontrivial"] += 1
                    check_state(acc, pendulum, z, inst, [u for u in UNITS if u != "week"], 0)
                    for ws in shard["week_configs"]:
                        _set_week(pendulum, ws, plain_int=(True if ws == 0 and inst % 2 else None))
                        check_state(acc, pendulum, z, inst, ["week"], ws)
                    _set_week(pendulum, 0)
                if trs:
                    acc.sample({"zone": z, "instant": obs.iso(trs[0][0] * US - 1), "units": list(UNITS),
                                "routes": ["converted", "constructed-fold0", "constructed-fold1", "arithmetic"],
                                "week_starts": shard["week_configs"]})
        elif k == "keyless":
            # receivers carrying a DST-aware tzinfo that has no key (dateutil-like): pendulum can only keep the offset in force
            # at the value, so the model state is (that fixed offset, instant)
            from .. import foreign
            for z in shard["zones"]:
                trs = [tr for tr in seeds.zone_transitions(z) if 1546300800 < tr[0] < 1672531200]
                for t, ob, oa in trs:
                    for d in (-max(abs(ob), abs(oa)) - 1, -abs(oa) + 1, -1, 0, 1, abs(oa) - 1, max(abs(ob), abs(oa)) + 1, 5 * 3600, -7 * 3600):
                        inst = (t + d) * US + 123456
                        f, xo = obs.expected_render(z, inst)
                        fold = 1 if (len(tzref.zone(z).solve(obs.wall_us(f) // US)) == 2 and tzref.zone(z).solve(obs.wall_us(f) // US)[1] * US + 123456 == inst) else 0
                        fx = pendulum.DateTime(*f, tzinfo=foreign.keyless(z), fold=fold)
                        if obs.instant_us(fx) != inst:
                            acc.c["seed_not_canonical"] += 1
                            continue
                        acc.c["states"] += 1
                        acc.c["nontrivial"] += 1
                        check_state(acc, pendulum, xo, inst, ["second", "minute", "hour", "day", "month"], 0, rs=[("keyless-dst-tzinfo", fx)], tag=z)
            acc.sample({"keyless_dst_tzinfo_receivers_in": shard["zones"]})
        elif k == "dates":
            for ws in range(7):
                _set_week(pendulum, ws, plain_int=(True if ws == 0 else None))
                for n in range(shard["n0"], shard["n1"], shard["step"]):
                    check_date(acc, pendulum, n, ws)
                    acc.c["states"] += 1
    finally:
        _set_week(pendulum, 0)
    return acc.result()


def replay_case(case, acc):
    import pendulum
    ws = case.get("ws", 0)
    try:
        _set_week(pendulum, ws, plain_int=(True if ws == 0 else None))
        if case["kind"] == "date":
            check_date(acc, pendulum, case["n"], ws)
        elif case.get("keyless"):
            from .. import foreign
            zz, inst = case["keyless"], case["inst"]
            f, xo = obs.expected_render(zz, inst)
            sol = tzref.zone(zz).solve(obs.wall_us(f) // US)
            fold = 1 if (len(sol) == 2 and sol[1] * US + inst % US == inst) else 0
            fx = pendulum.DateTime(*f, tzinfo=foreign.keyless(zz), fold=fold)
            check_state(acc, pendulum, xo, inst, [case["unit"]], ws, rs=[("keyless-dst-tzinfo", fx)], tag=zz)
        else:
            check_state(acc, pendulum, case["z"], case["inst"], [case["unit"]], ws)
    finally:
        _set_week(pendulum, 0)


def plan(tier, seed):
    thorough = tier == "thorough"
    zones = list(seeds.all_zones()) + [None, 19800, -12600]
    wk = list(range(7)) if thorough else [0, 6, (seed % 5) + 1]
    shards = [{"kind": "zones", "zones": ch, "limit": 0 if thorough else 4, "full": thorough, "seed": seed,
               "week_configs": wk} for ch in seeds.chunks(zones, 160 if thorough else 64)]
    for y in (2, 1899, 1999, 2023, 9890):
        n0 = calref.days_from_civil(y, 1, 1)
        shards.append({"kind": "dates", "n0": n0, "n1": n0 + 731, "step": 1})
    shards.append({"kind": "keyless", "zones": ["Europe/Paris", "America/New_York", "Australia/Lord_Howe", "Asia/Tehran"]})
    plans = [({"ext": 1, "tz": "sys"}, shards)]
    if thorough:
        plans.append(({"ext": 0, "tz": "pkg"}, shards))
    return plans


def evidence(m, tier, seed):
    c = m.c
    return {"coverage": {
        "evaluations": c["evaluations"], "states": c["states"], "transitions": c["transitions"],
        "traces_validated_against_impl": c["transitions"],
        "distinct_nontrivial": c["nontrivial"],
        "impl_states_per_model_state": round(c["impl_states"] / max(1, c["states"]) / 2, 3),
        "rule": "model state = (instant, zone); instants around offset transitions (-1us, 0, +1us, -gap, +gap-1us, "
                "-5h, +7h; thorough adds +-20h etc.) of the selected transitions of every zone (quick: 4 rotated by "
                "VERIF_SEED, thorough: all) plus ALL transitions whose skipped/repeated wall interval touches a day "
                "boundary (quick: up to 8 per zone), plus a year grid, naive and fixed offsets; each model state "
                "through up to 4 routes x 9 units x {start_of, end_of} applied twice; week under 3 (quick) / 7 "
                "(thorough) week configurations; Dates: every day of 5 two-year windows x 7 configurations; "
                "non-trivial = states adjacent to a transition",
        "exhaustive": True,
    }, "assumptions": ["reference TZif reader (validated against zoneinfo by ./check setup)"]}
