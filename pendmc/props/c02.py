"""C02 - wall-clock construction is normalised by the documented DST rules.

Seeds      : wall times Wp(t) around every skipped/repeated wall interval of every zone (from the tz
             data), ordinary walls on a grid; fold in {0,1}; raise_on_unknown_times in {F,T}.
Operations : datetime(), DateTime.create, local(), set/on().at()/replace from receivers with either fold,
             parse(tz=), Timezone.convert(naive), Timezone.datetime, instance(naive, tz), naive.in_timezone,
             and the same through FixedTimezone.
Oracle     : tzref.normalize (enumerates the UTC instants rendering to the wall time): unique -> exact,
             repeated -> later / earlier with fold 0, skipped -> forward by the gap / backward with fold 0,
             NonExistingTime exactly for skipped and AmbiguousTime exactly for repeated with the flag;
             every returned value re-renders from its own instant with identical fields and offset.
"""
from __future__ import annotations

import datetime as dt_

from .. import worker
from .. import core, obs, seeds
from ..ref import tzref

ID = "C02"
US = 1_000_000
_TZ = {}


def _tz(pendulum, z):
    t = _TZ.get(z)
    if t is None:
        t = _TZ[z] = pendulum.timezone(z)
    return t


def _expect(z, f, fold):
    kind, inst = tzref.normalize(tzref.zone(z), f, fold)
    if inst is None:
        return kind, None, None, None
    ef, eo = obs.expected_render(z, inst)
    return kind, inst, ef, eo


def _outcome(fn):
    try:
        return "ok", fn()
    except Exception as e:  # noqa: BLE001
        # what a caller's `except NonExistingTime:` / `except AmbiguousTime:` clauses would see (not just the class name)
        from pendulum.tz.exceptions import AmbiguousTime, NonExistingTime
        kinds = [c.__name__ for c in (NonExistingTime, AmbiguousTime) if isinstance(e, c)]
        return ("+".join(kinds) if kinds else type(e).__name__), None


ENTRY = ("datetime", "datetime_local_str", "set_same_raw", "at_same_raw", "on_same_raw", "set_nothing_raw", "create", "convert", "instance", "set", "replace", "replace_fold", "on_at", "on_keep_time_summer", "on_keep_time_winter", "set_foreign", "on_at_foreign",
         "parse", "from_format", "tz_datetime", "naive_in_tz", "local")


def _call(pendulum, name, z, tzobj, f, fold, rse, recv):
    """Returns (fold in effect or None if the entry point cannot express the request, thunk)."""
    y, mo, d, h, mi, s, us = f
    if isinstance(z, int):
        z = tzobj       # ints passed as tz= mean HOURS to pendulum; use the FixedTimezone object
    if rse and (mi + s + d) % 2:
        rse = 1         # the flag is read for its truth value: True and 1 alternate with the state
    if name == "datetime":
        return fold, lambda: pendulum.datetime(y, mo, d, h, mi, s, us, tz=z, fold=fold,
                                               raise_on_unknown_times=rse)
    if name == "datetime_local_str":
        # the process-wide local timezone named by the STRING 'local' (it changes from zone to zone within one process)
        def run_local():
            pendulum.set_local_timezone(tzobj)
            try:
                return pendulum.datetime(y, mo, d, h, mi, s, us, tz="local", fold=fold, raise_on_unknown_times=rse)
            finally:
                pendulum.set_local_timezone()
        return fold, run_local
    if name == "create":
        return fold, lambda: pendulum.DateTime.create(y, mo, d, h, mi, s, us, tz=tzobj, fold=fold,
                                                      raise_on_unknown_times=rse)
    if name == "convert":
        n = dt_.datetime(y, mo, d, h, mi, s, us, fold=fold)
        return fold, lambda: tzobj.convert(n, raise_on_unknown_times=rse)
    if rse:
        return None, None
    if name == "instance":
        n = dt_.datetime(y, mo, d, h, mi, s, us, fold=fold)
        return fold, lambda: pendulum.instance(n, tz=tzobj)
    if name.endswith("_raw"):
        # a receiver that ALREADY shows the requested wall time without having been normalised (the class constructor stores
        # fields as given); the setters are handed the values it shows
        r = pendulum.DateTime(y, mo, d, h, mi, s, us, tzinfo=tzobj, fold=fold)
        if name == "set_same_raw":
            return fold, lambda: r.set(year=y, month=mo, day=d, hour=h, minute=mi, second=s, microsecond=us)
        if name == "at_same_raw":
            return fold, lambda: r.at(h, mi, s, us)
        if name == "on_same_raw":
            return fold, lambda: r.on(y, mo, d)
        return fold, lambda: r.set()
    if name == "set":
        r = recv[fold]
        return r.fold, lambda: r.set(year=y, month=mo, day=d, hour=h, minute=mi, second=s, microsecond=us)
    if name in ("set_foreign", "on_at_foreign"):
        # a receiver whose tzinfo is not a pendulum timezone: a zoneinfo object (kept as the named zone) or a stdlib offset
        from .. import foreign
        fz = foreign.fixed(z.utcoffset(None).total_seconds()) if not isinstance(z, str) else foreign.zi(z)
        r = pendulum.DateTime(2000, 6, 15, 12, 0, 0, 250000, tzinfo=fz, fold=fold)
        if name == "set_foreign":
            return r.fold, lambda: r.set(year=y, month=mo, day=d, hour=h, minute=mi, second=s, microsecond=us)
        mid = r.on(y, mo, d)
        if (mid.year, mid.month, mid.day) != (y, mo, d):
            return None, None
        return mid.fold, lambda: mid.at(h, mi, s, us)
    if name in ("on_keep_time_summer", "on_keep_time_winter"):
        # on(): only the date changes, the receiver brings the time of day (and its fold) along
        ry = min(max(y, 3), 9996)
        rm = 7 if name.endswith("summer") else 1
        r = pendulum.DateTime.create(ry, rm, 15, h, mi, s, us, tz=tzobj, fold=fold)
        if obs.fields(r) != (ry, rm, 15, h, mi, s, us):
            return None, None        # the receiver's own wall time does not exist / was moved
        return r.fold, lambda: r.on(y, mo, d)
    if name == "replace":
        r = recv[fold]
        return r.fold, lambda: r.replace(year=y, month=mo, day=d, hour=h, minute=mi, second=s,
                                         microsecond=us)
    if name == "replace_fold":
        r = recv[1 - fold]
        return fold, lambda: r.replace(year=y, month=mo, day=d, hour=h, minute=mi, second=s,
                                       microsecond=us, fold=fold)
    if name == "on_at":
        r = recv[fold]
        mid = r.on(y, mo, d)
        if (mid.year, mid.month, mid.day) != (y, mo, d):
            return None, None   # the intermediate date itself was normalised away (whole-day gap)
        return mid.fold, lambda: mid.at(h, mi, s, us)
    if fold != 1:
        return None, None
    if name == "parse":
        if y < 1000:
            return None, None
        text = f"{y:04d}-{mo:02d}-{d:02d}T{h:02d}:{mi:02d}:{s:02d}.{us:06d}"
        return 1, lambda: pendulum.parse(text, tz=z)
    if name == "from_format":
        if y < 1000 or not isinstance(z, str):
            return None, None
        text = f"{y:04d}-{mo:02d}-{d:02d} {h:02d}:{mi:02d}:{s:02d}.{us:06d}"
        return 1, lambda: pendulum.from_format(text, "YYYY-MM-DD HH:mm:ss.SSSSSS", tz=z)
    if name == "tz_datetime":
        return 1, lambda: tzobj.datetime(y, mo, d, h, mi, s, us)
    if name == "naive_in_tz":
        return 1, lambda: pendulum.naive(y, mo, d, h, mi, s, us).in_timezone(tzobj)
    if name == "local":
        def run():
            pendulum.set_local_timezone(tzobj)
            try:
                return pendulum.local(y, mo, d, h, mi, s, us)
            finally:
                pendulum.set_local_timezone()
        return 1, run
    raise KeyError(name)


def _receivers(pendulum, z, tzobj):
    base = obs.utc_dt(pendulum, 961070400 * US + 250000).in_timezone(tzobj)  # 2000-06-15T12:00Z
    out = {}
    for fold in (0, 1):
        r = base.replace(fold=fold)
        out[fold] = r
    return out


def check_wall(acc, pendulum, z, f, entries=ENTRY, recv=None):
    tzobj = _tz(pendulum, z)
    if recv is None:
        recv = _receivers(pendulum, z, tzobj)
    if "set" in entries:
        # set(..., tz=<another zone>) from a receiver in z: the fields are read in the TARGET zone only - whatever z does
        # with that wall time (skipped, repeated) must not leak into the result (UTC: every wall time exists once)
        y, mo, d, h, mi, s_, us = f
        for fold in (0, 1):
            acc.c["evaluations"] += 1
            acc.c["transitions"] += 1
            try:
                r = recv[fold].set(year=y, month=mo, day=d, hour=h, minute=mi, second=s_, microsecond=us, tz=pendulum.UTC)
                got = [list(obs.fields(r)), obs.offset_s(r), r.timezone_name]
            except Exception as e:  # noqa: BLE001
                got = f"raises {type(e).__name__}"
            if got != [list(f), 0, "UTC"]:
                acc.mismatch("set(tz=other-zone)", "fields-read-in-target-zone",
                             {"kind": "wall", "z": z, "f": list(f), "fold": fold, "raise": False, "entry": "set"}, got, [list(f), 0, "UTC"])
    for fold in (0, 1):
        kind, inst, ef, eo = _expect(z, f, fold)
        if inst is None:
            acc.c["skipped_model_undefined"] += 1
            continue
        for rse in (False, True):
            for name in entries:
                eff_fold, thunk = _call(pendulum, name, z, tzobj, f, fold, rse, recv)
                if thunk is None:
                    continue
                if eff_fold != fold:
                    # receiver did not keep the requested fold: evaluate against the fold it carries
                    k2, i2, f2, o2 = _expect(z, f, eff_fold)
                    if i2 is None:
                        continue
                else:
                    k2, i2, f2, o2 = kind, inst, ef, eo
                status, r = _outcome(thunk)
                acc.c["evaluations"] += 1
                acc.c["transitions"] += 1
                case = {"kind": "wall", "z": z, "f": list(f), "fold": fold, "raise": rse, "entry": name}
                if rse and k2 == "skipped":
                    want = "NonExistingTime"
                elif rse and k2 == "repeated":
                    want = "AmbiguousTime"
                else:
                    want = "ok"
                acc.outcomes[f"{k2}/{'raise' if rse else 'noraise'}/{want}"] += 1
                if status != want:
                    acc.mismatch(name, f"{k2}-outcome", case, status, want)
                    continue
                if status != "ok":
                    continue
                got_f, got_o = obs.fields(r), obs.offset_s(r)
                if (got_f, got_o) != (f2, o2):
                    acc.mismatch(name, f"{k2}-fold{eff_fold}", case,
                                 {"fields": got_f, "offset": got_o}, {"fields": f2, "offset": o2})
                    continue
                zn = getattr(r, "timezone_name", None)
                if name.endswith("_foreign") and not isinstance(z, str):
                    zn = None       # a stdlib fixed offset is kept as *a* pendulum zone of that offset (UTC for +00:00); C01 covers names
                if zn is not None and zn != tzobj.name:
                    acc.mismatch(name, "zone-name", case, zn, tzobj.name)
                # validity: the value survives a round trip through UTC
                if isinstance(r, pendulum.DateTime):
                    rt = r.in_timezone("UTC").in_timezone(tzobj)
                    acc.c["transitions"] += 1
                    if (obs.fields(rt), obs.offset_s(rt)) != (got_f, got_o):
                        acc.mismatch(name, "utc-roundtrip", case,
                                     {"fields": obs.fields(rt), "offset": obs.offset_s(rt)},
                                     {"fields": got_f, "offset": got_o})


def run_shard(shard):
    import pendulum
    acc = core.Acc(ID)
    states = 0
    for z in shard["zones"]:
        tzobj = _tz(pendulum, z)
        recv = _receivers(pendulum, z, tzobj)
        walls = []
        if isinstance(z, int):
            walls = [seeds.grid_instants(370)[i] for i in range(0, 27, 3)]
        else:
            trs = seeds.zone_transitions(z)
            if shard["limit"]:
                trs = seeds.pick_transitions(trs, shard["limit"], shard["seed"])
            for t, ob, oa in trs:
                walls += seeds.wall_probes(t, ob, oa)
            acc.c["nontrivial"] += 3 * len(trs)     # lo, mid, hi-1us are skipped/repeated wall times
            walls += [w for w in seeds.grid_instants(370)]
        for w in walls:
            f = seeds.fields_of_wall(w)
            if not (2 <= f[0] <= 9998):
                continue
            states += 1
            with worker.guarded(acc, "construction", {"kind": "wall", "z": z, "f": list(f), "fold": 1, "raise": False, "entry": "*"}):
                check_wall(acc, pendulum, z, f, shard["entries"], recv)
        if not isinstance(z, int) and walls:
            acc.sample({"zone": z, "wall": list(seeds.fields_of_wall(walls[2])), "folds": [0, 1],
                        "raise_on_unknown_times": [False, True], "entries": list(shard["entries"])})
    acc.c["states"] += states
    return acc.result()


def replay_case(case, acc):
    import pendulum
    entries = ENTRY if case["entry"] == "*" else (case["entry"],)
    with worker.guarded(acc, "construction", case):
        check_wall(acc, pendulum, case["z"], tuple(case["f"]), entries)


def plan(tier, seed):
    thorough = tier == "thorough"
    zones = list(seeds.all_zones()) + list(seeds.WITNESS_FIXED)
    shards = [{"zones": ch, "limit": 0 if thorough else 40, "seed": seed, "entries": list(ENTRY)}
              for ch in seeds.chunks(zones, 64)]
    plans = [({"ext": 1, "tz": "sys"}, shards)]
    if thorough:
        plans.append(({"ext": 0, "tz": "pkg"}, shards))
    return plans


def evidence(m, tier, seed):
    c = m.c
    return {"coverage": {
        "evaluations": c["evaluations"], "states": c["states"], "transitions": c["transitions"],
        "traces_validated_against_impl": c["transitions"],
        "distinct_nontrivial": c["nontrivial"],
        "rule": "state = (zone, wall-clock tuple); walls = {lo-1us, lo, mid, hi-1us, hi} of the skipped/repeated "
                "wall interval [lo,hi) of each offset transition (quick: 40 transitions per zone rotated by "
                "VERIF_SEED; thorough: all) + a year grid; each state x fold{0,1} x raise{F,T} x 12 entry points; "
                "non-trivial = wall times that are skipped or repeated (3 per transition)",
        "exhaustive": True,
        "skipped_model_undefined": c["skipped_model_undefined"],
    }, "assumptions": ["reference TZif reader (validated against zoneinfo by ./check setup)"]}
