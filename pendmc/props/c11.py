"""C11 - DateTime, Date and Time are drop-in replacements for the native classes.

States     : DateTimes at P(t) around transitions of the witness zones (both folds), a year grid, naive and fixed
             offset values; Dates over a calendar sample; Times on a grid (naive and aware).  Native twins built with
             (a) zoneinfo.ZoneInfo(name) and (b) the same pendulum tzinfo object, same fields and fold.
Operations : isoformat, strftime (every directive), timetuple, utctimetuple, toordinal, weekday, isoweekday,
             isocalendar, timestamp, utcoffset, tzname, dst, ctime, date(), time(), timetz(), astimezone, replace;
             the six comparisons, hash and subtraction over all ordered pairs (pendulum x pendulum and mixed).
Oracle     : value equality with the twin; == / hash with twin (b) (twin (a) only outside folds - PEP 495); ordering of
             aware values = ordering of instants; subtraction compared with the twin only where the native result does
             not depend on the intra-zone wall-clock rule; returned dates/times/datetimes are pendulum types.
"""
from __future__ import annotations

import datetime as dt_
import operator
import zoneinfo

from .. import worker
from .. import core, obs, seeds
from ..ref import calref, tzref

ID = "C11"
US = 1_000_000
DIRECTIVES = "%a|%A|%w|%d|%b|%B|%m|%y|%Y|%H|%I|%p|%M|%S|%f|%z|%Z|%j|%U|%W|%c|%x|%X|%G|%u|%V|%%|%Y-%m-%dT%H:%M:%S.%f%z"
OPS = (("lt", operator.lt), ("le", operator.le), ("gt", operator.gt), ("ge", operator.ge), ("eq", operator.eq),
       ("ne", operator.ne))
_TZ = {}
_ZI = {}


def _tz(pendulum, z):
    t = _TZ.get(z)
    if t is None:
        t = _TZ[z] = pendulum.timezone(z)
    return t


def _zi(z):
    if isinstance(z, int):
        return dt_.timezone(dt_.timedelta(seconds=z))
    t = _ZI.get(z)
    if t is None:
        t = _ZI[z] = zoneinfo.ZoneInfo(z)
    return t


def mk(pendulum, z, inst):
    """(pendulum value, twin with the same tzinfo object, twin with a zoneinfo tzinfo or None)."""
    if z is None:
        f = seeds.fields_of_wall(inst)
        return pendulum.DateTime(*f), dt_.datetime(*f), None
    x = obs.utc_dt(pendulum, inst).in_timezone(_tz(pendulum, z))
    f = obs.fields(x)
    b = dt_.datetime(*f, tzinfo=x.tzinfo, fold=x.fold)
    a = dt_.datetime(*f, tzinfo=_zi(z), fold=x.fold)
    return x, b, a


def _val(v):
    if isinstance(v, dt_.timedelta):
        return ("td", obs.td_us(v))
    if isinstance(v, dt_.datetime):
        return ("dt", obs.fields(v), obs.offset_s(v), v.fold)
    if isinstance(v, dt_.date):
        return ("d", v.year, v.month, v.day)
    if isinstance(v, dt_.time):
        o = v.utcoffset()
        return ("t", v.hour, v.minute, v.second, v.microsecond, v.fold, None if o is None else obs.td_us(o))
    if isinstance(v, tuple) and hasattr(v, "_fields") or type(v).__name__ in ("struct_time", "IsoCalendarDate"):
        return ("tuple", tuple(v))
    return v


def _try(fn):
    try:
        return ("ok", _val(fn()))
    except Exception as e:  # noqa: BLE001
        return ("raises", type(e).__name__)


ACCESSORS = [
    ("isoformat", lambda v: v.isoformat()), ("isoformat-sep", lambda v: v.isoformat(" ", "milliseconds")),
    ("timetuple", lambda v: v.timetuple()), ("utctimetuple", lambda v: v.utctimetuple()),
    ("toordinal", lambda v: v.toordinal()), ("weekday", lambda v: v.weekday()), ("isoweekday", lambda v: v.isoweekday()),
    ("isocalendar", lambda v: v.isocalendar()), ("timestamp", lambda v: v.timestamp()),
    ("utcoffset", lambda v: v.utcoffset()), ("tzname", lambda v: v.tzname()), ("dst", lambda v: v.dst()),
    ("ctime", lambda v: v.ctime()), ("date", lambda v: v.date()), ("time", lambda v: v.time()),
    ("timetz", lambda v: v.timetz()), ("astimezone-utc", lambda v: v.astimezone(dt_.timezone.utc)),
    ("astimezone-pendulum-utc", lambda v: v.astimezone(_PEND["UTC"])),
    ("astimezone-pendulum-zone", lambda v: v.astimezone(_PEND["zone"])),
    ("astimezone-pendulum-fixed", lambda v: v.astimezone(_PEND["fixed"])),
    ("year..fold", lambda v: (v.year, v.month, v.day, v.hour, v.minute, v.second, v.microsecond, v.fold)),
    ("format", lambda v: format(v, "%Y/%m/%d %H:%M")),
    ("format-literal-first", lambda v: format(v, "on %d.%m.%Y at %H:%M (week %W)")),
    ("fstring-literal-first", lambda v: f"{v:T%H%M%S}"),
    ("str.format", lambda v: "{:day %j of %Y}".format(v)),
] + [(f"strftime({d})", (lambda v, d=d: v.strftime(d))) for d in DIRECTIVES.split("|")]


_PEND = {}


class _OffsetLike:
    """A calendar offset in the style of dateutil.relativedelta: not a timedelta, but with its attribute names, and with its own
    reflected operators (the result names the hook that ran and the wall clock it was given)."""
    days, seconds, microseconds, months = 1, 2, 3, 1

    def __radd__(self, other):
        return ("__radd__", other.year, other.month, other.day, other.hour, other.minute, other.second, other.microsecond)

    def __add__(self, other):
        return ("__add__", other.year, other.month, other.day, other.hour, other.minute, other.second, other.microsecond)

    def __rsub__(self, other):
        return ("__rsub__", other.year, other.month, other.day, other.hour, other.minute, other.second, other.microsecond)


class _BareAttrs:
    days, seconds, microseconds = 1, 2, 3


_OFFSET_LIKE, _BARE = _OffsetLike(), _BareAttrs()


def check_state(acc, pendulum, z, inst):
    if not _PEND:
        _PEND.update(UTC=pendulum.UTC, zone=_tz(pendulum, "America/St_Johns"), fixed=pendulum.FixedTimezone(-34200))
    x, b, a = mk(pendulum, z, inst)
    case = {"kind": "state", "z": z, "inst": inst}
    in_fold = z is not None and not isinstance(z, int) and obs.is_repeated_wall(z, obs.fields(x))
    for name, fn in ACCESSORS:
        if z is None and (name.startswith("astimezone") or name in ("timestamp", "utctimetuple")):
            continue     # naive values consult the process's local zone: not a property of the value
        got = _try(lambda: fn(x))
        want = _try(lambda: fn(b))
        acc.c["evaluations"] += 1
        acc.c["transitions"] += 1
        if got != want:
            acc.mismatch("accessor", name.split("(")[0], dict(case, acc=name), got, want)
        if a is not None and name not in ("tzname",) and _try(lambda: fn(a)) != want and name != "strftime(%Z)":
            acc.c["twin_a_differs"] += 1
    # equality / hash with the twins
    acc.c["evaluations"] += 3
    if not (x == b and b == x and hash(x) == hash(b) and not (x != b)):
        acc.mismatch("eq-hash", "twin-same-tzinfo", case, [x == b, b == x, hash(x) == hash(b)], [True, True, True])
    if a is not None and not in_fold:
        if not (x == a and a == x and hash(x) == hash(a)):
            acc.mismatch("eq-hash", "twin-zoneinfo", case, [x == a, a == x, hash(x) == hash(a)], [True, True, True])
    # result types
    types = {"date()": (x.date(), pendulum.Date), "time()": (x.time(), pendulum.Time), "timetz()": (x.timetz(), pendulum.Time),
             "astimezone": (x.astimezone(dt_.timezone.utc) if z is not None else x, pendulum.DateTime),
             "replace": (x.replace(microsecond=5), pendulum.DateTime),
             "combine": (pendulum.DateTime.combine(x.date(), x.time()), pendulum.DateTime),
             "fromordinal": (pendulum.DateTime.fromordinal(x.toordinal()), pendulum.DateTime)}
    if z is not None:
        # pendulum's own selectors handed native candidates (1 h later, 2 days earlier - as instants): the winner comes back
        # as a pendulum value
        try:
            bu = b.astimezone(dt_.timezone.utc)
            n1 = (bu + dt_.timedelta(hours=1)).astimezone(b.tzinfo)
            n2 = (bu - dt_.timedelta(days=2)).astimezone(b.tzinfo)
            c1, c2 = x.closest(n1, n2), x.farthest(n1, n2)
            types["closest(natives)"] = (c1, pendulum.DateTime)
            types["farthest(natives)"] = (c2, pendulum.DateTime)
            if c1.astimezone(dt_.timezone.utc) != n1.astimezone(dt_.timezone.utc) or \
                    c2.astimezone(dt_.timezone.utc) != n2.astimezone(dt_.timezone.utc):
                acc.mismatch("result-type", "closest/farthest-winner", case, [str(c1), str(c2)], [str(n1), str(n2)])
        except OverflowError:
            pass
    for k, (v, t) in types.items():
        acc.c["evaluations"] += 1
        if type(v) is not t:
            acc.mismatch("result-type", k, case, type(v).__name__, t.__name__)
    check_constructors(acc, pendulum, z, inst, x, b, case)
    # operands that are NOT timedeltas but look like one (days / seconds / microseconds attributes) and implement the reflected
    # operators themselves, as dateutil's relativedelta does: like the native class, the DateTime leaves the operation to them
    for name, fn, nat in (("x+offset-like", lambda: x + _OFFSET_LIKE, lambda: b + _OFFSET_LIKE), ("offset-like+x", lambda: _OFFSET_LIKE + x, lambda: _OFFSET_LIKE + b),
                          ("x-offset-like", lambda: x - _OFFSET_LIKE, lambda: b - _OFFSET_LIKE), ("x+bare-attrs", lambda: x + _BARE, lambda: b + _BARE),
                          ("x==offset-like", lambda: x == _OFFSET_LIKE, lambda: b == _OFFSET_LIKE), ("x<offset-like", lambda: x < _OFFSET_LIKE, lambda: b < _OFFSET_LIKE)):
        got, want = _try(fn), _try(nat)
        acc.c["evaluations"] += 1
        acc.c["transitions"] += 1
        if got != want:
            acc.mismatch("operator", f"foreign-operand/{name}", dict(case, op=name), got, want)
    if z is None or isinstance(z, int) or z == "UTC":
        # +/- with Duration operands that are SHARED by all states of the process (a module-level Duration, the library's own
        # resolution constants): the same answer as the native twin with the equal timedelta, every time
        if "dur" not in _PEND:
            _PEND["dur"] = pendulum.Duration(hours=5, minutes=30)
        D, td = _PEND["dur"], dt_.timedelta(hours=5, minutes=30)
        for name, fn, nat in (("x-Duration", lambda: x - D, lambda: b - td), ("x+Duration", lambda: x + D, lambda: b + td),
                              ("Duration+x", lambda: D + x, lambda: td + b), ("x-Duration(again)", lambda: x - D, lambda: b - td),
                              ("x+Time.resolution", lambda: x + pendulum.Time.resolution, lambda: b + dt_.time.resolution),
                              ("x-Duration.resolution", lambda: x - pendulum.Duration.resolution, lambda: b - dt_.timedelta.resolution)):
            # (fields, offset and type; the raw fold flag of an unambiguous value is not compared)
            obs_ = lambda r: (type(r).__name__ if not isinstance(r, pendulum.DateTime) else "DateTime", list(obs.fields(r)),  # noqa: E731
                              None if r.tzinfo is None else obs.offset_s(r))
            got = _try(lambda: obs_(fn()))
            want = _try(lambda: ("DateTime",) + obs_(nat())[1:])
            acc.c["evaluations"] += 1
            acc.c["transitions"] += 1
            if got != want:
                acc.mismatch("operator", f"shared-duration-operand/{name}", dict(case, op=name), got, want)
    for kw in REPLACE_DT:
        if z is not None and not isinstance(z, int) and "tzinfo" not in kw:
            # replacing wall fields inside a named zone is construction (C02): compare only where the target wall
            # time exists exactly once, so that fold plays no part
            try:
                tgt = obs.fields(b.replace(**kw))
            except ValueError:
                tgt = None
            if tgt is not None and len(tzref.zone(z).solve(obs.wall_us(tgt) // US)) != 1:
                continue
        got, want = _try(lambda: x.replace(**kw)), _try(lambda: b.replace(**kw))
        acc.c["evaluations"] += 1
        acc.c["transitions"] += 1
        if got[0] == "ok" and want[0] == "ok":
            got, want = ("ok", got[1][:3]), ("ok", want[1][:3])     # fields and offset (the raw fold flag is C02's business)
        if got != want:
            acc.mismatch("replace", "+".join(sorted(kw)), dict(case, kw={k: str(v) for k, v in kw.items()}), got, want)
    if z is not None:
        check_foreign_receiver(acc, pendulum, x, b, case)
    # mixed awareness: whatever the native class answers (TypeError for -, <; False for ==) the DateTime answers too
    other = dt_.datetime(2001, 2, 3, 4, 5, 6, 7, tzinfo=None if z is not None else dt_.timezone.utc)
    for name, fn in (("sub", lambda v: v - other), ("rsub", lambda v: other - v), ("lt", lambda v: v < other), ("eq", lambda v: v == other),
                     ("ne", lambda v: v != other), ("ge", lambda v: v >= other)):
        got, want = _try(lambda: fn(x)), _try(lambda: fn(b))
        acc.c["evaluations"] += 1
        if got != want:
            acc.mismatch("mixed-awareness", name, dict(case, acc=name), got, want)
    f7 = obs.fields(x)
    iso = x.isoformat()
    mix = {"for_json": (x.for_json(), iso), "format-empty": (format(x, ""), str(x)), "str": (str(x), b.isoformat(" ")),
           "format-tokens": (format(x, "YYYY-MM-DD HH:mm:ss.SSSSSS"), "%04d-%02d-%02d %02d:%02d:%02d.%06d" % f7),
           "fstring-percent": (f"{x:%H:%M}", f"{b:%H:%M}")}
    for k, (g, w) in mix.items():
        acc.c["evaluations"] += 1
        if k == "format-tokens" and f7[0] < 1000:
            continue
        if g != w:
            acc.mismatch("mixin", f"DateTime.{k}", dict(case, acc=k), g, w)


def _ctor_val(fn, pendulum, want_type):
    try:
        v = fn()
    except Exception as e:  # noqa: BLE001
        return ("raises", type(e).__name__)
    if want_type is not None and type(v) is not want_type:
        return ("type", type(v).__name__)
    return ("ok", obs.fields(v), obs.offset_s(v) if v.tzinfo is not None else None)


def check_constructors(acc, pendulum, z, inst, x, b, case):
    """The overridden alternative constructors (combine, fromtimestamp, utcfromtimestamp, fromordinal, strptime):
    same fields and offset as the native classmethod given the same arguments, and the pendulum type."""
    P, N = pendulum.DateTime, dt_.datetime
    utc = dt_.timezone.utc
    ts = inst // US + 0.25
    ctors = [
        ("combine(date,timetz)", lambda C: C.combine(b.date(), b.timetz())),
        ("combine(date,time)", lambda C: C.combine(b.date(), b.time())),
        ("combine(pendulum-date,pendulum-timetz)", lambda C: C.combine(x.date(), x.timetz())),
        ("combine(date,time,tzinfo)", lambda C: C.combine(b.date(), b.time(), b.tzinfo)),
        ("combine(date,timetz,utc)", lambda C: C.combine(b.date(), b.timetz(), utc)),
        ("fromordinal", lambda C: C.fromordinal(b.toordinal())),
        ("utcfromtimestamp", lambda C: C.utcfromtimestamp(ts)),
        # an explicit None drops the tzinfo the time carries
        ("combine(date,timetz,None)", lambda C: C.combine(b.date(), b.timetz(), None)),
        # fractions that round up to the next whole second / down to zero, a negative timestamp
        ("utcfromtimestamp(carry)", lambda C: C.utcfromtimestamp(inst // US + 0.9999996)),
        ("utcfromtimestamp(carry2)", lambda C: C.utcfromtimestamp(float(inst // US % 100000) + 0.99999995)),
        ("utcfromtimestamp(tiny)", lambda C: C.utcfromtimestamp(inst // US % 100000 + 0.0000004)),
        ("utcfromtimestamp(int)", lambda C: C.utcfromtimestamp(inst // US)),
    ]
    if z is not None:
        ctors += [
            ("fromtimestamp(ts,tz)", lambda C: C.fromtimestamp(ts, b.tzinfo)),
            ("fromtimestamp(ts,utc)", lambda C: C.fromtimestamp(ts, utc)),
            ("fromtimestamp(carry,tz)", lambda C: C.fromtimestamp(float(inst // US % 100000) + 0.99999995, b.tzinfo)),
            ("fromtimestamp(carry,utc)", lambda C: C.fromtimestamp(inst // US + 0.9999996, utc)),
            ("fromtimestamp(negative-fraction,tz)", lambda C: C.fromtimestamp(-(inst // US % 100000) - 0.75, b.tzinfo)),
            ("fromtimestamp(int,tz)", lambda C: C.fromtimestamp(inst // US, b.tzinfo)),
            ("strptime(%z)", lambda C: C.strptime(b.strftime("%Y-%m-%d %H:%M:%S.%f %z"), "%Y-%m-%d %H:%M:%S.%f %z")),
        ]
    # pendulum's own conversion of a native value: the twin itself is what must come back (tz=None: "attach no zone")
    for name, fn in (("instance(native,tz=None)", lambda: pendulum.instance(b, tz=None)),
                     ("instance(native,None)", lambda: pendulum.instance(b, None)),
                     ("DateTime.instance(native,tz=None)", lambda: P.instance(b, tz=None))) + (
                         (("instance(native)", lambda: pendulum.instance(b)),) if z is not None else ()):
        got = _ctor_val(fn, pendulum, P)
        want = ("ok", obs.fields(b), obs.offset_s(b) if b.tzinfo is not None else None)
        acc.c["evaluations"] += 1
        acc.c["transitions"] += 1
        if got != want:
            acc.mismatch("constructor", name, dict(case, ctor=name), got, want)
    import warnings
    with warnings.catch_warnings():
        warnings.simplefilter("ignore", DeprecationWarning)
        for name, fn in ctors:
            got = _ctor_val(lambda: fn(P), pendulum, P)
            want = _ctor_val(lambda: fn(N), pendulum, None)
            acc.c["evaluations"] += 1
            acc.c["transitions"] += 1
            if got != want:
                acc.mismatch("constructor", name.split("(")[0] + ("/" + name.split("(")[1].rstrip(")") if "(" in name else ""),
                             dict(case, ctor=name), got, want)


FOREIGN_ACCESSORS = ("isoformat", "utcoffset", "tzname", "timestamp", "utctimetuple", "timetuple", "date", "timetz", "year..fold",
                     "strftime(%Y-%m-%dT%H:%M:%S.%f%z)", "astimezone-utc")


def check_foreign_receiver(acc, pendulum, x, b, case):
    """A DateTime that carries a stdlib tzinfo (what astimezone(<stdlib tz>) and fromisoformat return) is still a drop-in
    replacement: accessors and replace() agree with the native object carrying the same tzinfo."""
    off = b.utcoffset()
    for lbl, ftz in (("timezone.utc", dt_.timezone.utc), ("timezone(offset)", dt_.timezone(off))):
        try:
            fx, nb = x.astimezone(ftz), b.astimezone(ftz)
        except Exception as e:  # noqa: BLE001
            acc.mismatch("foreign-receiver", f"astimezone({lbl})/raises", dict(case, foreign=lbl), type(e).__name__, "a DateTime")
            continue
        for name, fn in ACCESSORS:
            if name not in FOREIGN_ACCESSORS:
                continue
            got, want = _try(lambda: fn(fx)), _try(lambda: fn(nb))
            acc.c["evaluations"] += 1
            acc.c["transitions"] += 1
            if got != want:
                acc.mismatch("foreign-receiver", name.split("(")[0], dict(case, foreign=lbl, acc=name), got, want)
        for kw in REPLACE_DT:
            got, want = _try(lambda: fx.replace(**kw)), _try(lambda: nb.replace(**kw))
            acc.c["evaluations"] += 1
            if got[0] == "ok" and want[0] == "ok":
                got, want = ("ok", got[1][:3]), ("ok", want[1][:3])
            if got != want:
                acc.mismatch("foreign-receiver", "replace/" + "+".join(sorted(kw)), dict(case, foreign=lbl, kw={k: str(v) for k, v in kw.items()}),
                             got, want)
        if not (fx == nb and hash(fx) == hash(nb)):
            acc.mismatch("foreign-receiver", "eq-hash", dict(case, foreign=lbl), [fx == nb, hash(fx) == hash(nb)], [True, True])


def check_machine_zone_env(acc, pendulum, spelling, stamps):
    """Runs in a process STARTED with TZ=<spelling> (a zone name, ':name', or the path of a zone file): the members that
    answer in the machine's zone agree with the native classes, which follow the C library."""
    import time as time_
    for ts in stamps:
        case = {"kind": "mzenv", "TZ": spelling, "ts": ts}
        n = dt_.datetime.fromtimestamp(ts)
        want = [list(obs.fields(n)), time_.localtime(ts).tm_gmtoff]
        for name, fn in (("DateTime.fromtimestamp(ts)", lambda: pendulum.DateTime.fromtimestamp(ts)),
                         ("from_timestamp(ts, 'local')", lambda: pendulum.from_timestamp(ts, "local")),
                         ("Date.fromtimestamp(ts)", lambda: pendulum.Date.fromtimestamp(ts))):
            acc.c["evaluations"] += 1
            acc.c["transitions"] += 1
            acc.c["states"] += 1
            try:
                r = fn()
                got = [list(obs.fields(r)), obs.offset_s(r)] if isinstance(r, dt_.datetime) else [[r.year, r.month, r.day], None]
            except Exception as e:  # noqa: BLE001
                got = f"raises {type(e).__name__}"
            w = want if name != "Date.fromtimestamp(ts)" else [want[0][:3], None]
            if got != w:
                acc.mismatch("machine-zone", "from-TZ-environment/" + name, dict(case, member=name), got, w)


def _mzenv_fresh(arg):
    import pendulum
    acc = core.Acc(ID)
    check_machine_zone_env(acc, pendulum, arg["TZ"], arg["stamps"])
    return acc.result()


def check_machine_zone(acc, pendulum, tzname, stamps):
    import os
    import time as time_
    old = os.environ.get("TZ")
    os.environ["TZ"] = tzname
    time_.tzset()
    try:
        for ts in stamps:
            case = {"kind": "mz", "tz": tzname, "ts": ts}
            nf = obs.fields(dt_.datetime.fromtimestamp(ts))      # a local wall time of the machine's zone
            pairs = [
                ("Date.fromtimestamp", lambda: pendulum.Date.fromtimestamp(ts), lambda: dt_.date.fromtimestamp(ts)),
                ("DateTime.fromtimestamp(utc).astimezone()", lambda: pendulum.DateTime.fromtimestamp(ts, dt_.timezone.utc).astimezone(),
                 lambda: dt_.datetime.fromtimestamp(ts, dt_.timezone.utc).astimezone()),
                # naive values read the machine's zone in timestamp() / astimezone() / utctimetuple()
                ("naive.timestamp", lambda: pendulum.DateTime(*nf).timestamp(), lambda: dt_.datetime(*nf).timestamp()),
                ("naive.astimezone(utc)", lambda: pendulum.DateTime(*nf).astimezone(dt_.timezone.utc),
                 lambda: dt_.datetime(*nf).astimezone(dt_.timezone.utc)),
                ("naive.astimezone()", lambda: pendulum.DateTime(*nf).astimezone(), lambda: dt_.datetime(*nf).astimezone()),
            ]
            # (DateTime.fromtimestamp(ts) without tz answers with an aware value in pendulum's own, cached, local
            # timezone by design; it is not compared with the naive native result)
            for name, fp, fn in pairs:
                got, want = _try(fp), _try(fn)
                acc.c["evaluations"] += 1
                acc.c["transitions"] += 1
                acc.c["states"] += 1
                if got != want:
                    acc.mismatch("machine-zone", name, dict(case, member=name), got, want)
    finally:
        if old is None:
            os.environ.pop("TZ", None)
        else:
            os.environ["TZ"] = old
        time_.tzset()


def kf_fold_order(x, y, ix, iy, got, name):
    """C11-same-tzinfo-wall-order: two aware values sharing one tzinfo object are compared on their wall clock
    (stdlib intra-zone rule, inherited): where the wall-clock order differs from the order of the instants the
    comparison follows the wall clock."""
    if x.tzinfo is None or x.tzinfo is not y.tzinfo:
        return False
    wx, wy = obs.wall_us(obs.fields(x)), obs.wall_us(obs.fields(y))
    fn = dict(OPS)[name]
    return fn(wx, wy) != fn(ix, iy) and got == fn(wx, wy)


def check_pair(acc, pendulum, zx, ix, zy, iy):
    x, xb, xa = mk(pendulum, zx, ix)
    y, yb, ya = mk(pendulum, zy, iy)
    case = {"kind": "pair", "zx": zx, "ix": ix, "zy": zy, "iy": iy}
    same_tz = x.tzinfo is y.tzinfo
    fold_x = zx is not None and not isinstance(zx, int) and obs.is_repeated_wall(zx, obs.fields(x))
    fold_y = zy is not None and not isinstance(zy, int) and obs.is_repeated_wall(zy, obs.fields(y))
    for name, fn in OPS:
        got = _try(lambda: fn(x, y))
        nat = _try(lambda: fn(xb, yb))
        acc.c["evaluations"] += 1
        acc.c["transitions"] += 1
        if got != nat:
            acc.mismatch("compare", f"{name}/vs-native", case, got, nat)
        for lbl, g in (("pend-native", _try(lambda: fn(x, yb))), ("native-pend", _try(lambda: fn(xb, y)))):
            if g != nat:
                acc.mismatch("compare", f"{name}/{lbl}", case, g, nat)
        if zx is not None and zy is not None and got[0] == "ok":
            if name in ("eq", "ne") and not same_tz and (fold_x or fold_y):
                continue    # PEP 495: inter-zone ==/!= is defined to be False/True when an operand is in a fold
            want = fn(ix, iy)
            if got[1] != want:
                kf = "C11-same-tzinfo-wall-order" if kf_fold_order(x, y, ix, iy, got[1], name) else None
                acc.mismatch("compare", f"{name}/instant-order", case, got[1], want, kf=kf)
    if (zx is None) != (zy is None):
        return
    # subtraction, where the native result does not depend on the intra-zone rule
    if not same_tz or obs.offset_s(x) == obs.offset_s(y):
        nat = _try(lambda: xb - yb)
        for lbl, fnn in (("pp", lambda: x - y), ("pn", lambda: x - yb), ("np", lambda: xb - y)):
            got = _try(fnn)
            acc.c["evaluations"] += 1
            acc.c["transitions"] += 1
            if got != nat:
                # "the same value as the native object": exact at every span (C05's 64 us allowance is about the length it
                # reports on its own, not about equality with the native difference)
                acc.mismatch("subtract", lbl, case, got, nat)
            elif got[0] == "ok":
                dv, nv = fnn(), xb - yb
                if not (dv == nv and nv == dv and not (dv != nv) and hash(dv) == hash(nv)):
                    acc.mismatch("subtract", f"{lbl}/eq-hash-vs-native-difference", case, [dv == nv, nv == dv, hash(dv) == hash(nv)], [True, True, True])
            elif lbl == "pp" and got[0] == "ok" and not isinstance(x - y, pendulum.Interval):
                acc.mismatch("subtract", "type", case, type(x - y).__name__, "Interval")


REPLACE_TIME = ({"hour": 0}, {"minute": 0}, {"second": 0}, {"microsecond": 0}, {"second": 0, "microsecond": 0},
                {"hour": 23, "minute": 59}, {"microsecond": 999999}, {"tzinfo": None}, {"tzinfo": dt_.timezone.utc}, {"fold": 1})
REPLACE_DT = ({"hour": 0}, {"minute": 0}, {"second": 0}, {"microsecond": 0}, {"month": 1, "day": 1}, {"year": 2000, "month": 2, "day": 29},
              {"hour": 0, "minute": 0, "second": 0, "microsecond": 0}, {"tzinfo": None}, {"tzinfo": dt_.timezone.utc})


DATE_DELTAS = (dt_.timedelta(days=18), dt_.timedelta(hours=36), dt_.timedelta(days=1, seconds=1), dt_.timedelta(days=-1, seconds=1),
               dt_.timedelta(hours=-36), dt_.timedelta(microseconds=1), dt_.timedelta(days=-3, microseconds=-1))


def check_date(acc, pendulum, n1, n2):
    f1, f2 = calref.civil_from_days(n1), calref.civil_from_days(n2)
    x, b = pendulum.Date(*f1), dt_.date(*f1)
    y, yb = pendulum.Date(*f2), dt_.date(*f2)
    case = {"kind": "date", "n1": n1, "n2": n2}
    if n1 == n2 or n2 == n1 + 1:
        for name, fn in [("isoformat", lambda v: v.isoformat()), ("timetuple", lambda v: v.timetuple()),
                         ("toordinal", lambda v: v.toordinal()), ("weekday", lambda v: v.weekday()),
                         ("isoweekday", lambda v: v.isoweekday()), ("isocalendar", lambda v: v.isocalendar()),
                         ("ctime", lambda v: v.ctime()), ("str", str), ("format", lambda v: format(v, "%d.%m.%Y")),
                         ("format-literal-first", lambda v: format(v, "Week %W of %Y")),
                         ("strftime", lambda v: v.strftime("%a %A %d %b %B %m %y %Y %j %U %W %x %G %u %V"))]:
            got, want = _try(lambda: fn(x)), _try(lambda: fn(b))
            acc.c["evaluations"] += 1
            acc.c["transitions"] += 1
            if got != want:
                acc.mismatch("date-accessor", name, case, got, want)
        if not (x == b and hash(x) == hash(b)):
            acc.mismatch("date-eq-hash", "twin", case, [x == b, hash(x) == hash(b)], [True, True])
        for k, v in {"replace": x.replace(day=1), "fromordinal": pendulum.Date.fromordinal(x.toordinal()),
                     "today": pendulum.Date.today()}.items():
            if type(v) is not pendulum.Date:
                acc.mismatch("result-type", f"Date.{k}", case, type(v).__name__, "Date")
        ts = (dt_.date(*f1).toordinal() - 719163) * 86400 + 3600
        for k, fn in (("fromordinal", lambda C: C.fromordinal(b.toordinal())), ("fromtimestamp", lambda C: C.fromtimestamp(ts)),
                      ("replace", lambda C: (x if C is pendulum.Date else b).replace(month=2, day=28)),
                      ("fromisoformat", lambda C: C.fromisoformat(b.isoformat()))):
            got, want = _try(lambda: fn(pendulum.Date)), _try(lambda: fn(dt_.date))
            acc.c["evaluations"] += 1
            acc.c["transitions"] += 1
            if got != want:
                acc.mismatch("date-constructor", k, case, got, want)
        # the formatting mixin: for_json() is the ISO form, an empty format spec is str(), a non-% spec is format()
        mix = {"for_json": (x.for_json(), x.isoformat()), "format-empty": (format(x, ""), str(x)),
               "format-tokens": (format(x, "YYYY-MM-DD"), "%04d-%02d-%02d" % tuple(f1)), "str": (str(x), b.isoformat())}
        for k, (g, w) in mix.items():
            acc.c["evaluations"] += 1
            if k == "format-tokens" and f1[0] < 1000:
                continue        # token rendering is C08's subject and that is stated for years 1000-9999
            if g != w:
                acc.mismatch("mixin", f"Date.{k}", case, g, w)
    for name, fn in OPS:
        got, nat = _try(lambda: fn(x, y)), _try(lambda: fn(b, yb))
        acc.c["evaluations"] += 1
        if got != nat or _try(lambda: fn(x, yb)) != nat or _try(lambda: fn(b, y)) != nat:
            acc.mismatch("date-compare", name, case, got, nat)
    if n1 == n2 or n2 == n1 + 1:
        for td in DATE_DELTAS:
            for name, fn in (("date-minus-timedelta", lambda v: v - td), ("date-plus-timedelta", lambda v: v + td),
                             ("timedelta-plus-date", lambda v: td + v)):
                got, want = _try(lambda: fn(x)), _try(lambda: fn(b))
                acc.c["evaluations"] += 1
                acc.c["transitions"] += 1
                if got != want:
                    acc.mismatch("date-arith", name, dict(case, td=str(td)), got, want)
                elif got[0] == "ok" and type(fn(x)) is not pendulum.Date:
                    acc.mismatch("result-type", f"Date.{name}", dict(case, td=str(td)), type(fn(x)).__name__, "Date")
    got = _try(lambda: x - y)
    if got != _try(lambda: b - yb) or _try(lambda: x - yb) != got:
        acc.mismatch("date-subtract", "value", case, got, _try(lambda: b - yb))


def check_time(acc, pendulum, u1, u2, tzname):
    def mkt(u):
        s, us = divmod(u, US)
        f = (s // 3600, s % 3600 // 60, s % 60, us)
        tz = None if tzname is None else _tz(pendulum, tzname)
        return pendulum.Time(*f, tzinfo=tz), dt_.time(*f, tzinfo=tz)
    x, b = mkt(u1)
    y, yb = mkt(u2)
    case = {"kind": "time", "u1": u1, "u2": u2, "tz": tzname}
    if u1 == u2:
        for name, fn in [("isoformat", lambda v: v.isoformat()), ("isoformat-ms", lambda v: v.isoformat("milliseconds")),
                         ("utcoffset", lambda v: v.utcoffset()), ("tzname", lambda v: v.tzname()), ("dst", lambda v: v.dst()),
                         ("str", str), ("strftime", lambda v: v.strftime("%H|%I|%p|%M|%S|%f|%z|%Z|%X")),
                         ("format", lambda v: format(v, "%H:%M")), ("format-literal-first", lambda v: format(v, "at %H:%M:%S")),
                         ("fields", lambda v: (v.hour, v.minute, v.second, v.microsecond, v.fold))]:
            got, want = _try(lambda: fn(x)), _try(lambda: fn(b))
            acc.c["evaluations"] += 1
            acc.c["transitions"] += 1
            if got != want:
                acc.mismatch("time-accessor", name, case, got, want)
        if not (x == b and hash(x) == hash(b)):
            acc.mismatch("time-eq-hash", "twin", case, [x == b, hash(x) == hash(b)], [True, True])
        for name, fn in (("instance(native,tz=None)", lambda: pendulum.instance(b, tz=None)),
                         ("Time.instance(native,tz=None)", lambda: pendulum.Time.instance(b, tz=None))):
            got = _try(lambda: (lambda r: (type(r).__name__, r.isoformat(), r.utcoffset(), r.fold, r == b))(fn()))
            want = _try(lambda: ("Time", b.isoformat(), b.utcoffset(), b.fold, True))
            acc.c["evaluations"] += 1
            if got != want:
                acc.mismatch("time-constructor", name, case, got, want)
        if type(x.replace(minute=1)) is not pendulum.Time:
            acc.mismatch("result-type", "Time.replace", case, type(x.replace(minute=1)).__name__, "Time")
        for kw in REPLACE_TIME:
            got, want = _try(lambda: x.replace(**kw)), _try(lambda: b.replace(**kw))
            acc.c["evaluations"] += 1
            acc.c["transitions"] += 1
            if got != want:
                acc.mismatch("time-replace", "+".join(sorted(kw)), dict(case, kw={k: str(v) for k, v in kw.items()}), got, want)
    for name, fn in OPS:
        got, nat = _try(lambda: fn(x, y)), _try(lambda: fn(b, yb))
        acc.c["evaluations"] += 1
        if got != nat or _try(lambda: fn(x, yb)) != nat:
            acc.mismatch("time-compare", name, case, got, nat)


def state_set(seed, thorough):
    S = []
    for z in seeds.witness_zones(seed, 2):
        trs = seeds.pick_transitions(seeds.zone_transitions(z), 6 if thorough else 3, seed)
        for tr in trs:
            for p in seeds.probe_instants(*tr, full=thorough)[:9 if thorough else 5]:
                S.append((z, p))
        S.append((z, seeds.grid_instants(740)[5]))
    for z in (19800, -60, None):
        for inst in (0, 1, 951782400123456, 1616893200000000 - 1):
            S.append((z, inst))
    return S


def run_shard(shard):
    import pendulum
    acc = core.Acc(ID)
    k = shard["kind"]
    if k == "states":
        for z, inst in shard["left"]:
            acc.c["states"] += 1
            with worker.guarded(acc, "accessor", {"kind": "state", "z": z, "inst": inst}):
                check_state(acc, pendulum, z, inst)
            for zy, iy in shard["all"]:
                if shard["within_zone_only"] and zy != z:
                    continue
                with worker.guarded(acc, "compare", {"kind": "pair", "zx": z, "ix": inst, "zy": zy, "iy": iy}):
                    check_pair(acc, pendulum, z, inst, zy, iy)
                acc.c["nontrivial"] += 1
        acc.sample({"state": [str(shard["left"][0][0]), obs.iso(shard["left"][0][1])], "accessors": len(ACCESSORS),
                    "pairs_against": len(shard["all"])})
    elif k == "extreme-offsets":
        # zones up to 26 h (real zones) and 48 h (fixed offsets) apart, at the same and at nearby instants: calendar dates one or
        # two days apart say nothing about the order of the instants
        zs = ["Etc/GMT+12", "Pacific/Pago_Pago", "Pacific/Kiritimati", "Pacific/Apia", "UTC", -(23 * 3600 + 59 * 60), 23 * 3600 + 59 * 60]
        base = 1704195000 * US     # 2024-01-02T11:30:00Z
        insts = [base + dx * US for dx in (0, 1, -1, 3600, -3600, 86400 - 60, 90000, -90000, 47 * 3600, 49 * 3600)] + [base + 1, base - 1]
        for zx in zs:
            for ix in insts[:4] + insts[-2:]:
                acc.c["states"] += 1
                for zy in zs:
                    for iy in insts:
                        with worker.guarded(acc, "compare", {"kind": "pair", "zx": zx, "ix": ix, "zy": zy, "iy": iy}):
                            check_pair(acc, pendulum, zx, ix, zy, iy)
                        acc.c["nontrivial"] += 1
        acc.sample({"extreme_offset_zones": [str(z) for z in zs]})
    elif k == "dates":
        ns = shard["days"]
        for n1 in shard["left"]:
            acc.c["states"] += 1
            for n2 in ns:
                check_date(acc, pendulum, n1, n2)
    elif k == "machine-zone-env":
        from .c01 import TZ_SPELLINGS
        for spelling, _zone in TZ_SPELLINGS:
            acc.absorb(worker.fresh_call("c11", "_mzenv_fresh", {"TZ": spelling, "stamps": shard["stamps"]}, {"TZ": spelling}))
        acc.sample({"machine_zone_from_TZ_spellings": [s_ for s_, _ in TZ_SPELLINGS]})
    elif k == "machine-zone":
        # the members that consult the MACHINE's zone (the harness otherwise pins TZ=UTC): fromtimestamp() without tz,
        # Date.fromtimestamp(), today(), astimezone() without argument, naive timestamp()/utctimetuple()
        check_machine_zone(acc, pendulum, shard["tz"], shard["stamps"])
    elif k == "times":
        us = shard["times"]
        for tzname in (None, "UTC", 19800):
            for u1 in shard["left"]:
                acc.c["states"] += 1
                for u2 in us:
                    check_time(acc, pendulum, u1, u2, tzname)
    return acc.result()


def replay_case(case, acc):
    import pendulum
    k = case["kind"]
    if k == "mzenv":
        if worker.CTX["config"].get("TZ") != case["TZ"]:
            acc.absorb(worker.fresh_call("c11", "_mzenv_fresh", {"TZ": case["TZ"], "stamps": [case["ts"]]}, {"TZ": case["TZ"]}))
        else:
            check_machine_zone_env(acc, pendulum, case["TZ"], [case["ts"]])
    elif k == "mz":
        check_machine_zone(acc, pendulum, case["tz"], [case["ts"]])
    elif k == "state":
        check_state(acc, pendulum, case["z"], case["inst"])
    elif k == "pair":
        check_pair(acc, pendulum, case["zx"], case["ix"], case["zy"], case["iy"])
    elif k == "date":
        check_date(acc, pendulum, case["n1"], case["n2"])
    else:
        check_time(acc, pendulum, case["u1"], case["u2"], case["tz"])


def plan(tier, seed):
    thorough = tier == "thorough"
    S = state_set(seed, thorough)
    shards = [{"kind": "states", "left": ch, "all": S, "within_zone_only": False} for ch in seeds.chunks(S, 48)]
    d = calref.days_from_civil
    days = sorted({d(y, m, dd) for y in (1, 1900, 2000, 2024, 9999) for m, dd in ((1, 1), (2, 28), (3, 1), (12, 31))}
                  | {d(2024, 2, 29), d(2021, 1, 3), d(2021, 1, 4), 0, 1, d(2020 + seed % 5, 6, 15)})
    days += [n + 1 for n in days if n + 1 < d(9999, 12, 31)]
    days = sorted(set(days))
    shards += [{"kind": "dates", "left": ch, "days": days} for ch in seeds.chunks(days, 4)]
    times = sorted({0, 1, 999999, US, 59 * US + 999999, 3600 * US, 12 * 3600 * US, 86399 * US + 999999,
                    43200 * US + 500000, (seed * 7919) % 86400 * US})
    shards.append({"kind": "times", "left": times, "times": times})
    stamps = [0, 1, -1, 3600 * 3, -3600 * 4, 86399, 951782400 + 79200, 1616893200 - 1, 1616893200, 1636264800 + 1800.25, 1700000000.5,
              -2208988800 + 3600]
    for tzn in ("America/New_York", "Asia/Tokyo", "Australia/Lord_Howe"):
        shards.append({"kind": "machine-zone", "tz": tzn, "stamps": stamps})
    shards.append({"kind": "extreme-offsets"})
    shards.append({"kind": "machine-zone-env", "stamps": [s_ for s_ in stamps if s_ == int(s_)]})
    return [({"ext": 1, "tz": "sys"}, shards)]


def evidence(m, tier, seed):
    c = m.c
    return {"coverage": {
        "evaluations": c["evaluations"], "states": c["states"], "transitions": c["transitions"],
        "traces_validated_against_impl": c["transitions"],
        "distinct_nontrivial": c["nontrivial"],
        "rule": "state = pendulum value + native twins; DateTimes at P(t) of selected transitions of the witness zones "
                "(quick: 3 transitions x 5 probes per zone; thorough: 6 x 9), grid, fixed offsets, naive; each state x 47 "
                "accessors (incl. every strftime directive) + ==/hash with both twins + result types; ALL ordered pairs of "
                "the state set x six comparisons (pendulum-pendulum, pendulum-native, native-pendulum) against the native "
                "result and against the order of the instants, and subtraction where the native result is well defined; "
                "Dates: all pairs of a 50-day calendar sample; Times: all pairs of a 10-point grid x {naive, UTC, +05:30}; "
                "non-trivial = ordered pairs compared",
        "exhaustive": True,
        "twin_a_differs": c["twin_a_differs"],
    }, "assumptions": ["native twins are built with the same fields, tzinfo and fold",
                       "subtraction is compared with the native result only for pairs with different tzinfo objects or equal "
                       "offsets (C05 governs same-tzinfo pairs across an offset change)"]}
