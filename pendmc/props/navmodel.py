"""Defect model of pendulum's day-walking navigation (next / previous / first_of / last_of / nth_of and the week
branch of start_of / end_of) on the reference side.

The library computes these by composing two primitives, each followed by the C02 normalisation:
    set(fields...)   keeps the receiver's raw fold flag  -> a skipped wall time moves backward for fold 0
    add(days=k)      builds the result with fold=1       -> a skipped wall time moves forward
and by looping "until the weekday matches".  On ordinary days the composition is the calendar answer (that is what
the checks assert).  Where a local midnight is skipped or repeated, or a local day does not exist, the composition
returns something else (C16-anomalous-midnight, C12-week-day-anomaly).  This module replays the composition with the
reference tz model, so that a known finding can be tied to *exactly* the value the documented defect produces: an
observation that differs from this model is reported as a violation even inside the anomalous input class.

Nothing here imports pendulum.
"""
from __future__ import annotations

from .. import obs, seeds
from ..ref import calref, tzref

US = 1_000_000
LOOP_CAP = 80


class Hang(Exception):
    pass


class Raise(Exception):
    """PendulumException of nth_of."""


class St:
    __slots__ = ("f", "fold", "inst")

    def __init__(self, f, fold, inst):
        self.f, self.fold, self.inst = tuple(f), fold, inst

    y = property(lambda s: s.f[0])
    m = property(lambda s: s.f[1])
    d = property(lambda s: s.f[2])

    @property
    def quarter(self):
        return (self.f[1] - 1) // 3 + 1


def _dow(f):
    # 1970-01-01 (day 0) is a Thursday = 3 with Monday = 0
    return (calref.days_from_civil(f[0], f[1], f[2]) + 3) % 7


class Nav:
    def __init__(self, zname, ws=0, we=6):
        self.zname = zname
        self.z = tzref.zone(zname)
        self.ws, self.we = ws, we

    # -- primitives
    def norm(self, wall, fold):
        y, m, d = wall[:3]
        if not (1 <= y <= 9999) or not (1 <= m <= 12) or not (1 <= d <= calref.days_in_month(y, m)):
            raise ValueError("invalid date")
        kind, inst = tzref.normalize(self.z, wall, fold)
        if inst is None:
            raise ValueError("model undefined")
        f, _o = obs.expected_render(self.zname, inst)
        # the shift out of a gap is native datetime arithmetic, which resets fold to 0
        return St(f, 0 if kind == "skipped" else fold, inst)

    def start(self, f, fold):
        return self.norm(tuple(f), fold)

    def set_(self, st, year=None, month=None, day=None, hour=None, minute=None, second=None, us=None):
        f = list(st.f)
        for i, v in enumerate((year, month, day, hour, minute, second, us)):
            if v is not None:
                f[i] = v
        return self.norm(tuple(f), st.fold)

    def add_days(self, st, k):
        w = obs.wall_us(st.f) + k * 86400 * US
        f = seeds.fields_of_wall(w)
        return self.norm(f, 1)

    def sod(self, st):
        return self.set_(st, hour=0, minute=0, second=0, us=0)

    def eod(self, st):
        return self.set_(st, hour=23, minute=59, second=59, us=999999)

    # -- weekday walking
    def _walk(self, st, wd, keep, step):
        if wd is None:
            wd = _dow(st.f)
        dt = st if keep else self.sod(st)
        dt = self.add_days(dt, step)
        n = 0
        while _dow(dt.f) != wd:
            dt = self.add_days(dt, step)
            n += 1
            if n > LOOP_CAP:
                raise Hang()
        return dt

    def next(self, st, wd=None, keep=False):
        return self._walk(st, wd, keep, 1)

    def previous(self, st, wd=None, keep=False):
        return self._walk(st, wd, keep, -1)

    # -- month
    @staticmethod
    def _first_wd_day(y, m, wd):
        first = _dow((y, m, 1))
        return 1 + (wd - first) % 7

    @staticmethod
    def _last_wd_day(y, m, wd):
        n = calref.days_in_month(y, m)
        last = _dow((y, m, n))
        return n - (last - wd) % 7

    def first_of_month(self, st, wd=None):
        dt = self.sod(st)
        if wd is None:
            return self.set_(dt, day=1)
        return self.set_(dt, day=self._first_wd_day(dt.y, dt.m, wd))

    def last_of_month(self, st, wd=None):
        dt = self.sod(st)
        if wd is None:
            return self.set_(dt, day=calref.days_in_month(st.y, st.m))
        return self.set_(dt, day=self._last_wd_day(dt.y, dt.m, wd))

    def nth_of_month(self, st, nth, wd):
        if nth == 1:
            return self.first_of_month(st, wd)
        dt = self.first_of_month(st, None)
        check = (dt.y, dt.m)
        for _ in range(nth - (1 if _dow(dt.f) == wd else 0)):
            dt = self.next(dt, wd)
        if (dt.y, dt.m) == check:
            return self.sod(self.set_(st, day=dt.d))
        raise Raise()

    # -- quarter
    def first_of_quarter(self, st, wd=None):
        return self.first_of_month(self.set_(st, year=st.y, month=st.quarter * 3 - 2, day=1), wd)

    def last_of_quarter(self, st, wd=None):
        return self.last_of_month(self.set_(st, year=st.y, month=st.quarter * 3, day=1), wd)

    def nth_of_quarter(self, st, nth, wd):
        if nth == 1:
            return self.first_of_quarter(st, wd)
        dt = self.set_(st, day=1, month=st.quarter * 3)
        last_month, year = dt.m, dt.y
        dt = self.first_of_quarter(dt, None)
        for _ in range(nth - (1 if _dow(dt.f) == wd else 0)):
            dt = self.next(dt, wd)
        if last_month < dt.m or year != dt.y:
            raise Raise()
        return self.sod(self.set_(st, year=st.y, month=dt.m, day=dt.d))

    # -- year
    def first_of_year(self, st, wd=None):
        return self.first_of_month(self.set_(st, month=1), wd)

    def last_of_year(self, st, wd=None):
        return self.last_of_month(self.set_(st, month=12), wd)

    def nth_of_year(self, st, nth, wd):
        if nth == 1:
            return self.first_of_year(st, wd)
        dt = self.first_of_year(st, None)
        year = dt.y
        for _ in range(nth - (1 if _dow(dt.f) == wd else 0)):
            dt = self.next(dt, wd)
        if year != dt.y:
            raise Raise()
        return self.sod(self.set_(st, year=st.y, month=dt.m, day=dt.d))

    # -- week (C12)
    def start_of_week(self, st):
        dt = st
        if _dow(st.f) != self.ws:
            dt = self.previous(st, self.ws)
        return self.sod(dt)

    def end_of_week(self, st):
        dt = st
        if _dow(st.f) != self.we:
            dt = self.next(st, self.we)
        return self.eod(dt)


def emulate(zname, f, fold, op, unit=None, wd=None, nth=None, keep=False, ws=0, we=6):
    """-> ('ok', fields, offset) | ('raise',) | ('HANG',) | ('ValueError',)"""
    nav = Nav(zname, ws, we)
    try:
        st = nav.start(f, fold)
        if tuple(st.f) != tuple(f):
            return ("undefined",)
        if op == "next":
            r = nav.next(st, wd, keep)
        elif op == "previous":
            r = nav.previous(st, wd, keep)
        elif op == "start_of_week":
            r = nav.start_of_week(st)
        elif op == "end_of_week":
            r = nav.end_of_week(st)
        elif op == "nth_of":
            r = getattr(nav, f"nth_of_{unit}")(st, nth, wd)
        else:
            r = getattr(nav, f"{op}_{unit}")(st, wd)
    except Hang:
        return ("HANG",)
    except Raise:
        return ("raise",)
    except ValueError:
        return ("ValueError",)
    return ("ok", tuple(r.f), obs.expected_render(zname, r.inst)[1])
