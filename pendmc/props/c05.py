"""C05 - an interval's length is the exact elapsed time between its endpoints.

States     : DateTimes at P(t) around offset transitions (both folds arise naturally), range ends, 2^33 s
             straddlers; tz identity variants (same object / equal-named distinct object / different zones);
             Date pairs; naive pairs.
Operations : b - a, a.diff(b, False), interval(a, b), abs(), absolute=True, diff() default, in_seconds /
             in_minutes / in_hours, native operands on either side (tzinfo object different from the receiver's).
Oracle     : integer microsecond difference of the two instants (from the seeds, not from the objects);
             exact below 2^33 s, +-64 us beyond; in_* truncate toward zero; magnitude for the absolute forms.
"""
from __future__ import annotations

import datetime as dt_
import zoneinfo

from .. import worker
from .. import core, obs, seeds
from ..ref import calref, tzref

ID = "C05"
US = 1_000_000
LIM = (1 << 33) * US
_TZ = {}
_CLONE = {}
_ZI = {}


def _tz(pendulum, z, clone=False):
    d = _CLONE if clone else _TZ
    t = d.get(z)
    if t is None:
        if clone and not isinstance(z, int):
            t = pendulum.Timezone.no_cache(z)
        elif clone:
            t = pendulum.FixedTimezone(z)
        else:
            t = pendulum.timezone(z)
        d[z] = t
    return t


def _mk(pendulum, z, inst, clone=False):
    if z is None:
        return pendulum.DateTime(*seeds.fields_of_wall(inst))
    return obs.utc_dt(pendulum, inst).in_timezone(_tz(pendulum, z, clone))


_SUBS = []


def _subclasses(pendulum):
    if not _SUBS:
        class StampedDateTime(pendulum.DateTime):
            pass

        class OtherDateTime(pendulum.DateTime):
            pass
        _SUBS.extend([StampedDateTime, OtherDateTime])
    return _SUBS


def _flip(pendulum, x, z):
    # inert-ness is decided by the reference model, not by asking the implementation
    if not isinstance(z, int) and obs.is_repeated_wall(z, obs.fields(x)):
        return None
    return pendulum.DateTime(*obs.fields(x), tzinfo=x.tzinfo, fold=1 - x.fold)


def _within(got, want):
    if abs(want) < LIM:
        return got == want
    return abs(got - want) <= 64


def _trunc(x, unit):
    return -((-x) // unit) if x < 0 else x // unit


def check_pair(acc, pendulum, za, ia, zb, ib, clone_b=False, native=True):
    a = _mk(pendulum, za, ia)
    b = _mk(pendulum, zb, ib, clone_b)
    # seeds must be canonical renderings (C01's business otherwise)
    if za is not None and (obs.instant_us(a) != ia or obs.instant_us(b) != ib):
        acc.c["seed_not_canonical"] += 1
        return
    diff = ib - ia
    same = "same-tz" if (za == zb and not clone_b) else ("same-name" if za == zb else "cross-tz")
    in_fold = "fold" if za is not None and not isinstance(za, int) and (
        obs.is_repeated_wall(za, obs.fields(a)) or obs.is_repeated_wall(zb, obs.fields(b))) else "plain"
    cls = f"{same}/{in_fold}"
    case = {"kind": "pair", "za": za, "ia": ia, "zb": zb, "ib": ib, "clone_b": clone_b}
    forms = [("sub", lambda: b - a, diff), ("diff-signed", lambda: a.diff(b, False), diff),
             ("interval", lambda: pendulum.interval(a, b), diff),
             ("abs", lambda: abs(b - a), abs(diff)),
             ("absolute=True", lambda: pendulum.interval(a, b, absolute=True), abs(diff)),
             ("diff-default", lambda: a.diff(b), abs(diff)),
             # the flag is read for its truth value (1 for True), whichever endpoint comes first
             ("absolute=1", lambda: pendulum.interval(b, a, absolute=1), abs(diff)), ("Interval(a,b,1)", lambda: pendulum.Interval(a, b, 1), abs(diff)),
             ("diff(abs=1)", lambda: b.diff(a, 1), abs(diff)), ("diff(abs=0)", lambda: b.diff(a, 0), -diff),
             # abs() of intervals that are ALREADY absolute (whichever endpoint was given first), and twice
             ("abs-of-diff-default", lambda: abs(a.diff(b)), abs(diff)), ("abs-of-diff-default-rev", lambda: abs(b.diff(a)), abs(diff)),
             ("abs-of-absolute", lambda: abs(pendulum.interval(a, b, absolute=True)), abs(diff)),
             ("abs-abs", lambda: abs(abs(a - b)), abs(diff)),
             # one Interval OBJECT that had abs() applied to it before it is negated / measured again
             ("neg-after-abs", lambda: (lambda iv: (abs(iv), -iv)[1])(b - a), -diff), ("same-after-abs", lambda: (lambda iv: (abs(iv), abs(-iv), iv)[2])(b - a), diff),
             ("neg-after-abs/rev", lambda: (lambda iv: (abs(iv), -iv)[1])(a - b), diff)]
    if za is not None and not clone_b:
        # the same endpoints with the other raw fold flag where it is inert (an unambiguous wall time built by
        # pendulum.datetime() carries fold=1, a converted one fold=0): same instants, same length
        a2, b2 = _flip(pendulum, a, za), _flip(pendulum, b, zb)
        if a2 is not None or b2 is not None:
            a2 = a if a2 is None else a2
            b2 = b if b2 is None else b2
            forms.append(("sub-inert-fold", lambda: b2 - a2, diff))
            forms.append(("abs-inert-fold", lambda: a2.diff(b2), abs(diff)))
    if za is not None and (ia + ib) // US % 4 == 0:
        # a user subclass of DateTime on either side (and a sibling subclass): the same two instants
        Sub, Sib = _subclasses(pendulum)
        sa = Sub(*obs.fields(a), tzinfo=a.tzinfo, fold=a.fold)
        sb = Sub(*obs.fields(b), tzinfo=b.tzinfo, fold=b.fold)
        tb = Sib(*obs.fields(b), tzinfo=b.tzinfo, fold=b.fold)
        forms += [("sub/subclass-minus-base", lambda: sb - a, diff), ("sub/base-minus-subclass", lambda: b - sa, diff),
                  ("sub/subclass-minus-sibling", lambda: tb - sa, diff), ("diff/subclass", lambda: sa.diff(b, False), diff),
                  ("sub/subclass-minus-subclass", lambda: sb - sa, diff)]
    if za is None and zb is None:
        # naive endpoints handed over as NATIVE naive datetimes, on either side of the operator
        nna, nnb = dt_.datetime(*obs.fields(a)), dt_.datetime(*obs.fields(b))
        # (the operators only: diff() / Interval() read a naive NATIVE value as UTC by design, see C06)
        forms += [("sub/pendulum-minus-native-naive", lambda: b - nna, diff), ("sub/native-naive-minus-pendulum", lambda: nnb - a, diff)]
    if native and za is not None:
        # endpoints that carry a stdlib tzinfo (results of astimezone(<stdlib tz>)): same instants, same length
        try:
            fa_ = a.astimezone(dt_.timezone.utc)
            fb_ = b.astimezone(dt_.timezone(b.utcoffset()))
            fz_ = b.astimezone(_native(zb, ib).tzinfo)
            forms.append(("sub-foreign-endpoints", lambda: fb_ - fa_, diff))
            forms.append(("sub-foreign-zoneinfo", lambda: fz_ - fa_, diff))
            forms.append(("sub-foreign-minus-pendulum", lambda: fb_ - a, diff))
            forms.append(("diff-foreign", lambda: fa_.diff(fz_, False), diff))
        except (OverflowError, ValueError):
            pass
    if native and za is not None and (ia + ib) % 3 == 0:
        # an Interval built directly from native endpoints (Interval.__init__ wraps them with instance())
        na_, nb_ = _native(za, ia), _native(zb, ib)
        if obs.offset_s(na_) == obs.offset_s(a) and obs.offset_s(nb_) == obs.offset_s(b) and na_.tzinfo is not nb_.tzinfo:
            forms.append(("interval-of-natives", lambda: pendulum.Interval(na_, nb_), diff))
    first = None
    for name, fn, want in forms:
        try:
            r = fn()
        except Exception as e:  # noqa: BLE001
            acc.mismatch(name, f"{cls}/raises-{type(e).__name__}", case, f"{type(e).__name__}: {str(e)[:60]}", want)
            continue
        acc.c["evaluations"] += 1
        acc.c["transitions"] += 1
        got = obs.td_us(r)
        if not _within(got, want):
            acc.mismatch(name, cls, case, got, want)
        elif first is None:
            first = r
        if name == "sub" and abs(want) < LIM:
            ins = (r.in_seconds(), r.in_minutes(), r.in_hours())
            wi = (_trunc(diff, US), _trunc(diff, 60 * US), _trunc(diff, 3600 * US))
            if ins != wi:
                acc.mismatch("in_x", cls, case, ins, wi)
            if r.total_seconds() != diff / US:
                acc.mismatch("total_seconds", cls, case, r.total_seconds(), diff / US)
    if native and za is not None:
        # native operands whose tzinfo object is not the receiver's: native subtraction = elapsed time
        na = _native(za, ia)
        nb = _native(zb, ib)
        if obs.offset_s(na) == obs.offset_s(a) and obs.offset_s(nb) == obs.offset_s(b):
            for name, fn in (("sub-native-right", lambda: b - na), ("sub-native-left", lambda: nb - a)):
                r = fn()
                acc.c["evaluations"] += 1
                acc.c["transitions"] += 1
                got = obs.td_us(r)
                want = {"elapsed": diff}
                bad = not _within(got, diff)
                if na.tzinfo is not nb.tzinfo:
                    # distinct tzinfo objects: the native subtraction is the elapsed time too
                    want["native"] = obs.td_us(nb - na)
                    bad = bad or want["native"] != diff
                if bad:
                    acc.mismatch(name, cls, case, got, want)


def check_gap_native(acc, pendulum, z, t, ob, oa):
    """Native operands whose wall time does not exist (inside a spring-forward gap; they arise from native wall-clock
    arithmetic): the native class reads them through utcoffset() of their fold, and subtracting them from a DateTime
    must give what the native subtraction gives."""
    if oa <= ob or oa - ob > 7200 or t + ob < -62135596800 + 10 * 86400:
        return
    zi = _ZI.get(z)
    if zi is None:
        zi = _ZI[z] = zoneinfo.ZoneInfo(z)
    w = (t + ob) * US + ((oa - ob) // 2) * US + 123456          # a wall time in the middle of the gap
    f = seeds.fields_of_wall(w)
    for fold in (0, 1):
        n = dt_.datetime(*f, tzinfo=zi, fold=fold)
        if obs.offset_s(n) != (ob if fold == 0 else oa):
            acc.c["skipped_db_mismatch"] += 1       # zoneinfo reads the gap differently than the reference expects
            continue
        for dx in (-5 * 3600 * US, 9 * 3600 * US + 1):
            ix = t * US + dx
            x = obs.utc_dt(pendulum, ix)
            xb = obs.native_utc(ix)
            case = {"kind": "gapnat", "z": z, "t": t, "ob": ob, "oa": oa}
            for name, fn, want in (("sub-native-right", lambda: x - n, obs.td_us(xb - n)), ("sub-native-left", lambda: n - x, obs.td_us(n - xb))):
                acc.c["evaluations"] += 1
                acc.c["transitions"] += 1
                try:
                    got = obs.td_us(fn())
                except Exception as e:  # noqa: BLE001
                    got = f"raises {type(e).__name__}"
                if got != want:
                    acc.mismatch(name, "nonexistent-native-wall", dict(case, fold=fold, dx=dx), got, want)


def _native(z, inst):
    nu = obs.native_utc(inst)
    if isinstance(z, int):
        return nu.astimezone(dt_.timezone(dt_.timedelta(seconds=z)))
    zi = _ZI.get(z)
    if zi is None:
        zi = _ZI[z] = zoneinfo.ZoneInfo(z)
    return nu.astimezone(zi)


def check_dates(acc, pendulum, d1, d2):
    a = pendulum.Date(*calref.civil_from_days(d1))
    b = pendulum.Date(*calref.civil_from_days(d2))
    diff = (d2 - d1) * 86400 * US
    case = {"kind": "dates", "d1": d1, "d2": d2}
    for name, fn, want in (("sub", lambda: b - a, diff), ("diff-signed", lambda: a.diff(b, False), diff),
                           ("diff-default", lambda: a.diff(b), abs(diff)),
                           ("interval", lambda: pendulum.Interval(a, b), diff),
                           ("abs", lambda: abs(b - a), abs(diff))):
        r = fn()
        acc.c["evaluations"] += 1
        acc.c["transitions"] += 1
        if obs.td_us(r) != want:
            acc.mismatch(name, "date", case, obs.td_us(r), want)


def run_shard(shard):
    import pendulum
    acc = core.Acc(ID)
    k = shard["kind"]
    if k == "zone-local":
        for z in shard["zones"]:
            trs = seeds.zone_transitions(z)
            trs = seeds.pick_transitions(trs, shard["limit"], shard["seed"]) if shard["limit"] else trs
            for j, tr in enumerate(trs):
                with worker.guarded(acc, "sub", {"kind": "gapnat", "z": z, "t": tr[0], "ob": tr[1], "oa": tr[2]}):
                    check_gap_native(acc, pendulum, z, *tr)
                ps = seeds.probe_instants(*tr, full=True)
                acc.c["states"] += len(ps)
                for ia in ps:
                    for ib in ps:
                        with worker.guarded(acc, "sub", {"kind": "pair", "za": z, "ia": ia, "zb": z, "ib": ib, "clone_b": False}):
                            check_pair(acc, pendulum, z, ia, z, ib, clone_b=False, native=(j % 3 == 0))
                            if j % 2 == 0:
                                check_pair(acc, pendulum, z, ia, z, ib, clone_b=True, native=False)
                        acc.c["nontrivial"] += 1
            if trs:
                acc.sample({"zone": z, "pair": [obs.iso(seeds.probe_instants(*trs[0])[0]),
                                                obs.iso(seeds.probe_instants(*trs[0])[4])],
                            "forms": ["b-a", "diff(b,False)", "interval", "abs", "absolute=True", "diff()"]})
    elif k == "cross":
        S = shard["states"]
        for za, ia in shard["left"]:
            acc.c["states"] += 1
            for zb, ib in S:
                with worker.guarded(acc, "sub", {"kind": "pair", "za": za, "ia": ia, "zb": zb, "ib": ib, "clone_b": False}):
                    check_pair(acc, pendulum, za, ia, zb, ib, clone_b=False, native=((ia + ib) % 5 == 0))
                acc.c["nontrivial"] += 1
    elif k == "dates":
        ds = shard["days"]
        for d1 in shard["left"]:
            for d2 in ds:
                check_dates(acc, pendulum, d1, d2)
            acc.c["states"] += 1
    return acc.result()


def replay_case(case, acc):
    import pendulum
    if case["kind"] == "gapnat":
        check_gap_native(acc, pendulum, case["z"], case["t"], case["ob"], case["oa"])
    elif case["kind"] == "pair":
        check_pair(acc, pendulum, case["za"], case["ia"], case["zb"], case["ib"], case["clone_b"], native=True)
    else:
        check_dates(acc, pendulum, case["d1"], case["d2"])


def _cross_states(seed, thorough):
    S = []
    zs = seeds.witness_zones(seed, 2)
    for z in zs:
        trs = seeds.pick_transitions(seeds.zone_transitions(z), 8 if thorough else 4, seed)
        for tr in trs:
            for p in seeds.probe_instants(*tr, full=False)[:5 if thorough else 3]:
                S.append((z, p))
    for z in ("UTC", "Europe/Paris", "America/New_York", 19800, -60, None):
        for inst in ((calref.days_from_civil(2, 1, 2) * 86400) * US,
                     (calref.days_from_civil(9998, 12, 30) * 86400 + 86399) * US + 999999,
                     0, (1 << 33) * US - 1, (1 << 33) * US + 1, -(1 << 33) * US - 1, 1700000000 * US + 5):
            S.append((z, inst))
    return S


def plan(tier, seed):
    thorough = tier == "thorough"
    zones = list(seeds.all_zones())
    shards = [{"kind": "zone-local", "zones": ch, "limit": 0 if thorough else 3, "seed": seed}
              for ch in seeds.chunks(zones, 96 if thorough else 48)]
    S = _cross_states(seed, thorough)
    aware = [s for s in S if s[0] is not None]
    naive = [s for s in S if s[0] is None]
    shards += [{"kind": "cross", "left": ch, "states": aware} for ch in seeds.chunks(aware, 32)]
    shards.append({"kind": "cross", "left": naive, "states": naive})
    days = sorted({calref.days_from_civil(y, m, d) for y in (1, 1900, 2000, 2024, 9999)
                   for m, d in ((1, 1), (2, 28), (3, 1), (12, 31))} | {0, 1, -1, 19000 + seed})
    shards.append({"kind": "dates", "left": days, "days": days})
    return [({"ext": 1, "tz": "sys"}, shards)]


def evidence(m, tier, seed):
    c = m.c
    return {"coverage": {
        "evaluations": c["evaluations"], "states": c["states"], "transitions": c["transitions"],
        "traces_validated_against_impl": c["transitions"],
        "distinct_nontrivial": c["nontrivial"],
        "rule": "for every zone: all 81 ordered pairs among the 9 probes P(t) of each selected transition (quick: 3 "
                "transitions/zone rotated by VERIF_SEED; thorough: all), with the second endpoint also in an "
                "equal-named distinct tzinfo object; all ordered pairs of a cross-zone state set (witness zones' "
                "transition probes, range ends, 2^33 s straddlers, fixed offsets); Date pairs; naive pairs; "
                "non-trivial = ordered pairs evaluated (every pair has an endpoint adjacent to a transition or a "
                "range/2^33 boundary)",
        "exhaustive": True,
        "seed_not_canonical": c["seed_not_canonical"],
    }, "assumptions": ["reference TZif reader (validated against zoneinfo by ./check setup)",
                       "native operands only with a tzinfo object different from the receiver's (same-object native "
                       "subtraction is wall-clock based by the stdlib rule)"]}
