"""C14 - pickle, copy and deepcopy reproduce every pendulum value exactly.

Seeds      : DateTime: both occurrences of an ambiguous wall time for overlaps of every zone, gap neighbours, naive,
             fixed offset, UTC, and DateTimes carrying a non-pendulum tzinfo; Date; Time (naive and aware); Duration:
             every subset of the 9 constructor components x sign pattern {+, -, mixed}; Interval: {forward, inverted,
             absolute} x {same zone, different zones, Date, ambiguous endpoints}; all Timezones; all 2 879
             FixedTimezones (+ custom names).
Operations : pickle.dumps/loads with protocols 0..5, copy.copy, copy.deepcopy; depth 2 (a copy of a copy).
Oracle     : same type; identical public accessor tuple (fields, instant, offset, zone name and kind; components and
             sign; endpoints and absolute flag; name and offset); == for the date, time, duration and interval values.
             The raw fold flag is compared only where it selects the instant (repeated wall times).
"""
from __future__ import annotations

import copy
import datetime as dt_
import itertools
import pickle
import zoneinfo

from .. import worker
from .. import core, obs, seeds
from ..ref import calref, tzref

ID = "C14"
US = 1_000_000
ROUTES = [("pickle%d" % p, (lambda x, p=p: pickle.loads(pickle.dumps(x, protocol=p)))) for p in range(6)] + \
         [("copy", copy.copy), ("deepcopy", copy.deepcopy)]
_TZ = {}


def _tz(pendulum, z):
    t = _TZ.get(z)
    if t is None:
        t = _TZ[z] = pendulum.timezone(z)
    return t


def acc_dt(x):
    f = obs.fields(x)
    o = obs.offset_s(x)
    zn = getattr(x, "timezone_name", None)
    fold = None
    if isinstance(zn, str) and zn in obs._names() and len(tzref.zone(zn).solve(obs.wall_us(f) // US)) >= 2:
        fold = x.fold
    tzn = x.tzname() if x.tzinfo is not None else None
    # (a COPY reproduces the fold attribute as it is, also where it does not select anything - unlike values reached by
    # different routes, whose raw flag is not compared)
    return ("DateTime", f, o, obs.instant_us(x), fold, zn, obs.tzkind(x), tzn, x.fold)


def acc_of(pendulum, x):
    if isinstance(x, pendulum.Interval):
        return ("Interval", acc_of(pendulum, x.start), acc_of(pendulum, x.end), x._absolute, x.invert, obs.td_us(x),
                x.years, x.months, x.weeks, x.remaining_days, x.hours, x.minutes, x.remaining_seconds, x.microseconds,
                x.in_days())
    if isinstance(x, pendulum.DateTime):
        return acc_dt(x)
    if isinstance(x, pendulum.Date):
        return ("Date", x.year, x.month, x.day)
    if isinstance(x, pendulum.Time):
        o = x.utcoffset()
        return ("Time", x.hour, x.minute, x.second, x.microsecond, None if o is None else int(o.total_seconds()),
                x.tzname(), x.fold, type(x.tzinfo).__name__, getattr(x.tzinfo, "name", None), x.isoformat())
    if isinstance(x, pendulum.Duration):
        return (type(x).__name__, x.years, x.months, x.weeks, x.remaining_days, x.hours, x.minutes, x.remaining_seconds,
                x.microseconds, obs.td_us(x), x.invert, x.total_seconds(), x.in_days(), x.seconds)
    if isinstance(x, pendulum.FixedTimezone):
        return ("FixedTimezone", x.name, x.offset, x.utcoffset(None), x.tzname(None), x.dst(None))
    if isinstance(x, pendulum.Timezone):
        probes = [dt_.datetime(1900, 1, 1), dt_.datetime(1985, 7, 1, 12), dt_.datetime(2024, 1, 15), dt_.datetime(2024, 7, 15)]
        return ("Timezone", x.name, x.key, tuple(x.utcoffset(p) for p in probes), tuple(x.tzname(p) for p in probes))
    return (type(x).__name__, repr(x))


def _use(pendulum, x):
    """Ordinary read-only operations on a value (every one returns a new object or a plain result): the value they were
    applied to is the same value afterwards, and so are its copies."""
    one_hour = dt_.timedelta(hours=1)
    ops = [lambda: str(x), lambda: repr(x), lambda: hash(x), lambda: x == x]
    if isinstance(x, dt_.timedelta):
        ops += [lambda: -x, lambda: abs(x), lambda: x.in_words(), lambda: x.in_words(locale="fr"), lambda: x.total_seconds(), lambda: x.in_weeks(),
                lambda: x.in_days(), lambda: x.in_hours(), lambda: x.in_seconds(), lambda: x * 2, lambda: 3 * x, lambda: x // 2, lambda: x / 2,
                lambda: x + one_hour, lambda: one_hour + x, lambda: x - one_hour, lambda: one_hour - x, lambda: x % one_hour,
                lambda: x.as_timedelta(), lambda: (x.weeks, x.remaining_days, x.hours, x.minutes, x.remaining_seconds),
                lambda: pendulum.DateTime(2021, 3, 14, 12, tzinfo=pendulum.UTC) + x, lambda: pendulum.DateTime(2021, 3, 14, 12, tzinfo=pendulum.UTC) - x,
                lambda: pendulum.format_diff(x), lambda: x.as_duration(), lambda: x.in_months(), lambda: x.in_years()]
    elif isinstance(x, dt_.datetime):
        ops += [lambda: x.add(days=1), lambda: x.add(hours=1), lambda: x.subtract(months=1), lambda: x + one_hour, lambda: x - one_hour,
                lambda: x.start_of("day"), lambda: x.end_of("month"), lambda: x.set(minute=1), lambda: x.on(2001, 2, 3),
                lambda: x.at(4, 5, 6), lambda: x.in_timezone("Asia/Tokyo"), lambda: x.format("LLLL Z z"), lambda: x.day_of_year,
                lambda: x.diff(x), lambda: x.timestamp(), lambda: x.isoformat(), lambda: x.date(),
                lambda: x.time(), lambda: x.replace(year=2001), lambda: x.naive(), lambda: x.utcoffset()]
    elif isinstance(x, dt_.date):
        ops += [lambda: x.add(days=1), lambda: x.subtract(months=1), lambda: x.start_of("month"), lambda: x.end_of("year"), lambda: x.day_of_year,
                lambda: x.next(), lambda: x.last_of("month"), lambda: x.diff(x), lambda: x.format("LL"), lambda: x.replace(day=1)]
    elif isinstance(x, dt_.time):
        ops += [lambda: x.add(hours=1), lambda: x.subtract(minutes=1), lambda: x.diff(x), lambda: x.format("LTS"), lambda: x.replace(minute=1),
                lambda: x.isoformat(), lambda: x.utcoffset()]
    elif isinstance(x, dt_.tzinfo):
        n = dt_.datetime(2021, 3, 28, 2, 30)
        ops += [lambda: x.utcoffset(n.replace(tzinfo=x)), lambda: x.convert(n), lambda: x.datetime(2021, 10, 31, 2, 30), lambda: x.tzname(n.replace(tzinfo=x)),
                lambda: x.fromutc(n.replace(tzinfo=x)), lambda: x.name]
    for op in ops:
        try:
            op()
        except Exception:  # noqa: BLE001
            pass


def check_value(acc, pendulum, label, x, case, eq=True, depth2=False):
    want = acc_of(pendulum, x)
    _check_copies(acc, pendulum, label, x, case, want, eq, depth2, "")
    if not depth2:
        # the same value after it has been USED: it still reads the same, and its copies still reproduce it
        _use(pendulum, x)
        acc.c["evaluations"] += 1
        after = acc_of(pendulum, x)
        if after != want:
            diff = [i for i, (a, b) in enumerate(zip(after, want)) if a != b]
            acc.mismatch(label, "changed-by-use/accessors", dict(case, route="use"), {"got": after, "differs_at": diff}, want)
        else:
            _check_copies(acc, pendulum, label, x, case, want, eq, False, "after-use/")


def _check_copies(acc, pendulum, label, x, case, want, eq, depth2, stage):
    for rname, fn in ROUTES:
        acc.c["evaluations"] += 1
        acc.c["transitions"] += 1
        try:
            y = fn(x)
            if depth2:
                y = fn(y)
        except Exception as e:  # noqa: BLE001
            acc.mismatch(f"{label}", f"{stage}{'pickle' if rname.startswith('pickle') else rname}/raises-{type(e).__name__}",
                         dict(case, route=rname), f"{type(e).__name__}: {str(e)[:80]}", "a copy")
            continue
        rcls = stage + ("pickle" if rname.startswith("pickle") else rname)
        if type(y) is not type(x):
            acc.mismatch(label, f"{rcls}/type", dict(case, route=rname), type(y).__name__, type(x).__name__)
            continue
        got = acc_of(pendulum, y)
        if got != want:
            diff = [i for i, (a, b) in enumerate(zip(got, want)) if a != b]
            acc.mismatch(label, f"{rcls}/accessors", dict(case, route=rname), {"got": got, "differs_at": diff}, want)
            continue
        if eq and not (y == x):
            acc.mismatch(label, f"{rcls}/not-equal", dict(case, route=rname), "copy != original", "copy == original")
        elif eq and (y != x or hash(y) != hash(x)):
            acc.mismatch(label, f"{rcls}/ne-or-hash", dict(case, route=rname), [y != x, hash(y) == hash(x)], [False, True])


# ---- seed builders (each returns (label, value, case) from a JSON-able case) -----------------------------

def build(pendulum, case):
    k = case["k"]
    if k == "dt":
        z, inst = case["z"], case["inst"]
        if z is None:
            return "DateTime", pendulum.DateTime(*seeds.fields_of_wall(inst)), True
        return "DateTime", obs.utc_dt(pendulum, inst).in_timezone(_tz(pendulum, z)), True
    if k == "dt-naive-fold1":
        return "DateTime-naive-fold1", pendulum.naive(*seeds.fields_of_wall(case["inst"])), True
    if k == "dt-foreign":
        x = obs.utc_dt(pendulum, case["inst"]).in_timezone(_tz(pendulum, case["z"]))
        if case["tzkind"] == "timezone.utc":
            return "DateTime-foreign-tz", x.astimezone(dt_.timezone.utc), True
        if case["tzkind"] == "timezone+1":
            return "DateTime-foreign-tz", x.astimezone(dt_.timezone(dt_.timedelta(hours=1), "X")), True
        return "DateTime-foreign-tz", x.astimezone(zoneinfo.ZoneInfo(case["z"])), True
    if k == "dt-local":
        # a value in the machine's zone, found by the library from the TZ environment variable of this process
        assert worker.CTX["config"].get("TZ") == case["TZ"], "dt-local cases are built in a process started with that TZ"
        if case.get("via") == "local()":
            return "DateTime-local-zone", pendulum.local(*case["f"]), True
        return "DateTime-local-zone", pendulum.datetime(*case["f"], tz="local", fold=case["fold"]), True
    if k == "date":
        return "Date", pendulum.Date(*case["f"]), True
    if k == "time":
        tz = None if case["tz"] is None else _tz(pendulum, case["tz"])
        return "Time", pendulum.Time(*case["f"], tzinfo=tz, fold=case.get("fold", 0)), True
    if k == "absdur":
        from pendulum.duration import AbsoluteDuration
        return "AbsoluteDuration", AbsoluteDuration(**case["kw"]), True
    if k == "timediff":
        # what Time.diff() hands out (an AbsoluteDuration whose native value keeps the sign)
        return "Time.diff()", pendulum.Time(*case["t1"]).diff(pendulum.Time(*case["t2"])), True
    if k == "dur":
        return "Duration", pendulum.Duration(**case["kw"]), True
    if k == "iv":
        a = build(pendulum, case["a"])[1]
        b = build(pendulum, case["b"])[1]
        return "Interval", pendulum.Interval(a, b, absolute=case["abs"]), True
    if k == "iv-native":
        # endpoints handed over as native datetimes (Interval converts them itself)
        def nat(c):
            v = build(pendulum, c)[1]
            return dt_.datetime(*obs.fields(v), tzinfo=v.tzinfo, fold=v.fold)
        return "Interval-from-native", pendulum.Interval(nat(case["a"]), nat(case["b"]), absolute=case["abs"]), True
    if k == "tz":
        return "Timezone", pendulum.timezone(case["name"]), False
    if k == "fixed":
        if case.get("name"):
            return "FixedTimezone", pendulum.FixedTimezone(case["off"], case["name"]), False
        return "FixedTimezone", pendulum.timezone(case["off"]), False
    raise KeyError(k)


def run_case(acc, pendulum, case, depth2=False):
    with worker.guarded(acc, "copy", case):
        label, x, eq = build(pendulum, case)
        check_value(acc, pendulum, label, x, case, eq=eq, depth2=depth2)


DUR_KEYS = ("years", "months", "weeks", "days", "hours", "minutes", "seconds", "milliseconds", "microseconds")
DUR_VALS = {"years": 2, "months": 5, "weeks": 3, "days": 4, "hours": 7, "minutes": 11, "seconds": 13, "milliseconds": 17,
            "microseconds": 19}


def duration_cases():
    out = []
    for n in range(1, 10):
        for sub in itertools.combinations(DUR_KEYS, n):
            if n > 4 and n < 9 and hash(sub) % 5:
                continue
            for pattern in ("+", "-", "mixed"):
                kw = {}
                for i, k in enumerate(sub):
                    s = 1 if pattern == "+" else -1 if pattern == "-" else (1 if i % 2 == 0 else -1)
                    kw[k] = s * DUR_VALS[k]
                out.append({"k": "dur", "kw": kw})
    for n in range(1, 4):
        for sub in itertools.combinations(DUR_KEYS, n):
            for sgn in (1, -1):
                out.append({"k": "absdur", "kw": {k: sgn * DUR_VALS[k] for k in sub}})
    for t1, t2 in (((10, 0, 0, 0), (8, 0, 0, 0)), ((8, 0, 0, 0), (10, 0, 0, 5)), ((23, 59, 59, 999999), (0, 0, 0, 0)), ((1, 2, 3, 4), (1, 2, 3, 4))):
        out.append({"k": "timediff", "t1": list(t1), "t2": list(t2)})
    out.append({"k": "dur", "kw": {}})
    out.append({"k": "dur", "kw": {"days": 400, "hours": 25}})
    out.append({"k": "dur", "kw": {"weeks": 1}})
    out.append({"k": "dur", "kw": {"years": 1, "months": 1, "weeks": 1, "days": 1}})
    # lengths of centuries that carry microseconds (beyond the float-exact range of seconds), up to timedelta's limits
    for kw in ({"days": 300000, "seconds": 5, "microseconds": 1}, {"days": 300000, "seconds": 5, "microseconds": 3},
               {"days": -450000, "seconds": -7, "microseconds": -999999}, {"days": 999999999, "hours": 23, "minutes": 59, "seconds": 59, "microseconds": 999999},
               {"days": -999999999}, {"years": 100, "months": 7, "days": 60000, "microseconds": 1}, {"days": 49711, "microseconds": 3},
               {"years": -1, "days": 999999999, "microseconds": 1}):
        out.append({"k": "dur", "kw": kw})
    return out


def _local_cases(tzname):
    out = []
    trs = seeds.zone_transitions(tzname)
    overlaps = [t for t in trs if t[2] < t[1] and 0 < t[0] < 2000000000][-3:]
    for t, ob, oa in overlaps:
        mid = seeds.fields_of_wall((t + oa + (ob - oa) // 2) * US + 250000)      # inside the repeated wall interval
        before = seeds.fields_of_wall((t + oa - 3600) * US)
        for f in (mid, before):
            for fold in (0, 1):
                out.append({"k": "dt-local", "TZ": tzname, "f": list(f), "fold": fold})
        out.append({"k": "dt-local", "TZ": tzname, "f": list(mid), "fold": 1, "via": "local()"})
        out.append({"k": "iv", "abs": False, "TZ": tzname, "a": {"k": "dt-local", "TZ": tzname, "f": list(before), "fold": 0},
                    "b": {"k": "dt-local", "TZ": tzname, "f": list(mid), "fold": 1}})
    return out


def run_shard(shard):
    import pendulum
    acc = core.Acc(ID)
    k = shard["kind"]
    if k == "local-env":
        # the machine's zone comes from the environment once per process: run this shard in a process started with it
        if worker.CTX["config"].get("TZ") != shard["TZ"]:
            return worker.fresh_call("c14", "run_shard", shard, {"TZ": shard["TZ"]})
        for case in _local_cases(shard["TZ"]):
            acc.c["states"] += 1
            acc.c["nontrivial"] += 1
            run_case(acc, pendulum, case)
        acc.sample({"machine_zone_from_TZ_env": shard["TZ"], "values": "both passes of repeated local times, intervals"})
        return acc.result()
    if k == "zones":
        for z in shard["zones"]:
            trs = seeds.zone_transitions(z)
            overlaps = [t for t in trs if t[2] < t[1]]
            gaps = [t for t in trs if t[2] > t[1]]
            sel = seeds.pick_transitions(overlaps, shard["limit"], shard["seed"]) if shard["limit"] else overlaps
            sel += seeds.pick_transitions(gaps, 1, shard["seed"])
            for t, ob, oa in sel:
                g = abs(oa - ob)
                insts = [t * US - (g // 2) * US - 1, t * US + (g // 2) * US + 1] if oa < ob else [t * US - 1, t * US]
                for inst in insts:
                    if not (tzref.MIN_T * US < inst < tzref.MAX_T * US):
                        continue
                    acc.c["states"] += 1
                    acc.c["nontrivial"] += 1
                    run_case(acc, pendulum, {"k": "dt", "z": z, "inst": inst}, depth2=(inst % 2 == 0))
                # an interval between the two occurrences of the same wall time, and across zones
                if oa < ob and len(insts) == 2:
                    a = {"k": "dt", "z": z, "inst": insts[0]}
                    b = {"k": "dt", "z": z, "inst": insts[1]}
                    for ab in (False, True):
                        run_case(acc, pendulum, {"k": "iv", "a": a, "b": b, "abs": ab})
                        run_case(acc, pendulum, {"k": "iv", "a": b, "b": a, "abs": ab})
                    run_case(acc, pendulum, {"k": "iv", "a": {"k": "dt", "z": "UTC", "inst": insts[0] - 5 * US}, "b": b, "abs": False})
                    run_case(acc, pendulum, {"k": "dt-foreign", "z": z, "inst": insts[1], "tzkind": "zoneinfo"})
            run_case(acc, pendulum, {"k": "tz", "name": z})
            acc.c["states"] += 1
        acc.sample({"zone": shard["zones"][0], "values": "both occurrences of ambiguous wall times, gap neighbours, intervals between them, the Timezone itself"})
    elif k == "misc":
        cases = []
        for inst in (0, 1, -1, 951782400123456, 1700000000000000, -2208988800000000):
            for z in ("UTC", None, 19800, -60, "Europe/Paris"):
                cases.append({"k": "dt", "z": z, "inst": inst})
            cases.append({"k": "dt-naive-fold1", "inst": inst})
            for tk in ("timezone.utc", "timezone+1", "zoneinfo"):
                cases.append({"k": "dt-foreign", "z": "Europe/Paris", "inst": inst, "tzkind": tk})
        for f in ((1, 1, 1), (2024, 2, 29), (9999, 12, 31), (1970, 1, 1)):
            cases.append({"k": "date", "f": list(f)})
        for f in ((0, 0, 0, 0), (23, 59, 59, 999999), (12, 30, 15, 1)):
            for tz in (None, "UTC", 19800, -60, "Europe/Paris", "Australia/Lord_Howe"):
                cases.append({"k": "time", "f": list(f), "tz": tz})
                cases.append({"k": "time", "f": list(f), "tz": tz, "fold": 1})
        d1 = {"k": "date", "f": [2020, 1, 31]}
        d2 = {"k": "date", "f": [2021, 3, 1]}
        p1 = {"k": "dt", "z": "Europe/Paris", "inst": 1577880000000000}
        p2 = {"k": "dt", "z": "Europe/Paris", "inst": 1614556800000001}
        n1 = {"k": "dt", "z": "America/New_York", "inst": 1600000000000000}
        u1 = {"k": "dt", "z": None, "inst": 1500000000000000}
        u2 = {"k": "dt", "z": None, "inst": 1500000100000000}
        # endpoints in fixed offsets (cached FixedTimezone objects: a pickled copy gets fresh ones), in UTC, and values whose
        # tzinfo is not a pendulum timezone
        f1 = {"k": "dt", "z": 19800, "inst": 1577880000000000}
        f2 = {"k": "dt", "z": 19800, "inst": 1614556800000001}
        f3 = {"k": "dt", "z": -10800, "inst": 1600000000000000}
        g1 = {"k": "dt", "z": "UTC", "inst": 1577880000000000}
        g2 = {"k": "dt", "z": "UTC", "inst": 1614556800000001}
        for a, b in ((d1, d2), (p1, p2), (p1, n1), (u1, u2), (p1, p1), (f1, f2), (f1, f3), (g1, g2), (g1, f2)):
            for ab in (False, True):
                cases.append({"k": "iv", "a": a, "b": b, "abs": ab})
                cases.append({"k": "iv", "a": b, "b": a, "abs": ab})
                if a["k"] == "dt":
                    cases.append({"k": "iv-native", "a": a, "b": b, "abs": ab})
                    cases.append({"k": "iv-native", "a": b, "b": a, "abs": ab})
        for c in cases:
            acc.c["states"] += 1
            run_case(acc, pendulum, c)
            run_case(acc, pendulum, c, depth2=True)
        acc.sample({"values": ["DateTime naive/UTC/fixed/foreign tzinfo", "Date", "Time naive/aware", "Interval forward/inverted/absolute"]})
    elif k == "durations":
        for c in shard["cases"]:
            acc.c["states"] += 1
            if c.get("kw", {}).get("years") or c.get("kw", {}).get("months") or c.get("kw", {}).get("weeks") or c["k"] != "dur":
                acc.c["nontrivial"] += 1
            run_case(acc, pendulum, c)
        acc.sample(shard["cases"][3])
    elif k == "fixed":
        for off in range(shard["o0"], shard["o1"]):
            acc.c["states"] += 1
            run_case(acc, pendulum, {"k": "fixed", "off": off * 60})
            if off % 97 == 0:
                run_case(acc, pendulum, {"k": "fixed", "off": off * 60 + 7, "name": "Custom/Name"})
                acc.c["nontrivial"] += 1
        acc.sample({"fixed_offset_minutes": shard["o0"]})
    return acc.result()


def _replay_fresh(case):
    acc = core.Acc(ID)
    replay_case(case, acc)
    return acc.result()


def replay_case(case, acc):
    import pendulum
    if case.get("TZ") and worker.CTX["config"].get("TZ") != case["TZ"]:
        acc.absorb(worker.fresh_call("c14", "_replay_fresh", case, {"TZ": case["TZ"]}))
        return
    c = {k: v for k, v in case.items() if k != "route"}
    run_case(acc, pendulum, c)
    run_case(acc, pendulum, c, depth2=True)


def plan(tier, seed):
    thorough = tier == "thorough"
    zones = list(seeds.all_zones())
    shards = [{"kind": "zones", "zones": ch, "limit": 0 if thorough else 6, "seed": seed}
              for ch in seeds.chunks(zones, 48)]
    shards.append({"kind": "misc"})
    for ch in seeds.chunks(duration_cases(), 8):
        shards.append({"kind": "durations", "cases": ch})
    for o0 in range(-1439, 1440, 240):
        shards.append({"kind": "fixed", "o0": o0, "o1": min(1440, o0 + 240)})
    for tzname in ("Europe/Paris", "America/New_York", "Australia/Lord_Howe"):
        shards.append({"kind": "local-env", "TZ": tzname})
    # Interval components come from precise_diff: the value seeds that carry intervals also run on the Python twin
    light = [sh for sh in shards if sh["kind"] == "misc"] + shards[seed % 5:40:5]
    return [({"ext": 1, "tz": "sys"}, shards)] + [({"ext": 0, "tz": "pkg"}, shards if thorough else light)]


def evidence(m, tier, seed):
    c = m.c
    return {"coverage": {
        "evaluations": c["evaluations"], "states": c["states"], "transitions": c["transitions"],
        "traces_validated_against_impl": c["transitions"],
        "distinct_nontrivial": c["nontrivial"],
        "rule": "state = value: for every zone both occurrences of the ambiguous wall time of its overlaps (quick: 6 per "
                "zone rotated by VERIF_SEED; thorough: all) and a gap neighbour, intervals between them (forward, "
                "inverted, absolute) and from UTC, the same instant under a zoneinfo tzinfo, the Timezone object; naive / "
                "UTC / fixed / foreign-tzinfo DateTimes, Dates, naive and aware Times, Intervals of every endpoint kind; "
                "Durations for the subsets of the 9 constructor components x {+,-,mixed}; all 2 879 minute FixedTimezones "
                "(+ custom names); each value x pickle protocols 0..5, copy, deepcopy (and a copy of a copy); "
                "non-trivial = ambiguous/gap DateTimes, Durations with years/months/weeks, custom-named offsets",
        "exhaustive": True,
    }, "assumptions": ["Interval._absolute is read directly (the absolute flag has no public accessor)"]}
