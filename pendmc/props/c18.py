"""C18 - human-readable differences are total, localized and correctly directed.

Seeds      : 27 locales x units x counts (years, weeks 0..1000 = every CLDR plural class; months 0..11; days 0..6;
             hours 0..23; minutes, seconds 0..59) x {now, other} x {past, future} x {absolute}; in_words on Durations
             with every subset of components and on Intervals; the locale-dependent format tokens x 12 months x 7
             weekdays x AM/PM; all ordered pairs of a 40-point instant set for direction and magnitude; the global
             locale (set_locale) as well as the explicit locale= argument.
Histories  : from a cleared Locale._cache: all orderings of <= 3 distinct calls drawn from {format_diff, in_words,
             format(token), ordinalize, from_format} must return what each call returns alone on a cold cache.
Oracle     : no exception; non-empty str; no residual '{' or '}'; the phrase equals the locale's OWN pattern
             (relative.<unit>.past/future, custom.before/after/ago/from_now, units.<unit>.<plural>) filled with an
             acceptable count: unit = the interval's largest non-zero unit (promotion to the next unit allowed),
             count in {k, k+1}; no marker with absolute=True.
"""
from __future__ import annotations

import collections
import importlib
import itertools
import re

from .. import worker
from .. import core, obs, seeds
from ..ref import calref

ID = "C18"
AMBIENT = {"ws": 6}     # this module varies the other setting itself
US = 1_000_000
LOCALES = ("cs", "da", "de", "en", "en_gb", "en_us", "es", "fa", "fo", "fr", "he", "id", "it", "ja", "ko", "lt", "nb",
           "nl", "nn", "pl", "pt_br", "ru", "sk", "sv", "tr", "ua", "zh")
UNITS = ("year", "month", "week", "day", "hour", "minute", "second")
_DATA = {}


def data(loc):
    d = _DATA.get(loc)
    if d is None:
        actual = loc
        try:
            m = importlib.import_module(f"pendulum.locales.{actual}.locale")
        except ImportError:
            actual = loc.split("_")[0]
            m = importlib.import_module(f"pendulum.locales.{actual}.locale")
        d = _DATA[loc] = m.locale
    return d


def look(d, path):
    cur = d
    for p in path.split("."):
        if not isinstance(cur, dict) or p not in cur:
            return None
        cur = cur[p]
    return cur


def fill(pattern, value):
    """Substitute every placeholder of a locale pattern (generic: '{0}', '{}', '{time}')."""
    return re.sub(r"\{[^}]*\}", lambda m: str(value), pattern)


def phrase(d, unit, count, is_now, is_future, absolute):
    """The phrase the locale's own data prescribes for (unit, count, flags); None if the data has no entry."""
    plural = d["plural"](count)
    if absolute:
        pat = look(d, f"translations.units.{unit}.{plural}")
        return None if pat is None else fill(pat, count)
    if is_now:
        pat = look(d, f"translations.relative.{unit}.{'future' if is_future else 'past'}.{plural}")
        return None if pat is None else fill(pat, count)
    tr = look(d, f"custom.units_relative.{unit}.{'future' if is_future else 'past'}")
    if tr:
        time = fill(tr[plural], count)
    else:
        pat = look(d, f"translations.units.{unit}.{plural}")
        if pat is None:
            return None
        time = fill(pat, count)
    wrap = look(d, f"custom.{'after' if is_future else 'before'}")
    return None if wrap is None else fill(wrap, time)


def few_seconds(d, is_now, is_future, absolute):
    time = look(d, "custom.units.few_second")
    if time is None:
        return None
    if absolute:
        return time
    key = ("from_now" if is_future else "ago") if is_now else ("after" if is_future else "before")
    wrap = look(d, f"custom.{key}")
    return None if wrap is None else fill(wrap, time)


def acceptable(d, comps, is_now, is_future, absolute):
    """Set of acceptable phrases for an interval with components (years, months, weeks, days, hours, minutes, seconds)."""
    names = UNITS
    idx = next((i for i, v in enumerate(comps) if v), None)
    out = set()
    if idx is None or (idx == 6 and comps[6] <= 10):
        f = few_seconds(d, is_now, is_future, absolute)
        if f is not None:
            out.add(f)
        for c in {max(1, comps[6]), comps[6] or 1}:
            p = phrase(d, "second", c, is_now, is_future, absolute)
            if p:
                out.add(p)
        return out
    k = comps[idx]
    rest = any(comps[idx + 1:])
    cands = {(names[idx], k)}
    if rest:
        cands.add((names[idx], k + 1))
        limit = {1: 12, 2: 5, 3: 7, 4: 24, 5: 60, 6: 60}.get(idx)
        if idx > 0 and limit and k + 1 >= limit:
            cands.add((names[idx - 1], 1))         # promotion to the next larger unit
        if idx == 2 and k + 1 >= 4:
            cands.add(("month", 1))
    for u, c in cands:
        p = phrase(d, u, c, is_now, is_future, absolute)
        if p:
            out.add(p)
    return out


def basic(acc, sub, cls, case, fn):
    """Run fn(); check totality, non-empty str, no braces.  Returns the string or None."""
    acc.c["evaluations"] += 1
    acc.c["transitions"] += 1
    try:
        r = fn()
    except Exception as e:  # noqa: BLE001
        acc.mismatch(sub, f"{cls}/raises-{type(e).__name__}", case, f"{type(e).__name__}: {str(e)[:60]}", "a phrase")
        return None
    if not isinstance(r, str) or not r.strip():
        acc.mismatch(sub, f"{cls}/empty", case, repr(r), "a non-empty str")
        return None
    if "{" in r or "}" in r:
        acc.mismatch(sub, f"{cls}/placeholder", case, r, "every placeholder substituted")
        return None
    return r


def check_unit_count(acc, pendulum, loc, unit, k):
    """format_diff on a Duration made of exactly k units, every flag combination."""
    d = data(loc)
    comps = [0] * 7
    comps[UNITS.index(unit)] = k
    kw = {unit + "s": k}
    seen = {}
    for future in (False, True):
        if unit in ("year", "month"):
            dur = pendulum.Duration(**kw)
            if future:
                # direction is carried by `invert`; a Duration of years only has no sign of its own: use an Interval
                a = pendulum.datetime(2000, 1, 1)
                b = a.add(**kw)
                dur = pendulum.Interval(b, a, absolute=True)   # instance later than the reference
        else:
            from pendulum.duration import AbsoluteDuration
            dur = AbsoluteDuration(**{unit + "s": -k if future else k})
            if future and k == 0:
                continue
        if bool(dur.invert) != future:
            continue
        for is_now in (True, False):
            for absolute in (False, True):
                case = {"kind": "uc", "loc": loc, "unit": unit, "k": k, "future": future, "now": is_now, "abs": absolute}
                r = basic(acc, "format_diff", loc, case, lambda: pendulum.format_diff(dur, is_now, absolute, loc))
                if r is None:
                    continue
                seen[(is_now, absolute, future)] = r
                ok = acceptable(d, comps, is_now, future, absolute)
                if ok and r not in ok:
                    acc.mismatch("format_diff", f"{loc}/phrase", case, r, sorted(ok))
    # the direction must be readable from the phrase: earlier and later may not render alike
    for is_now in (True, False):
        p, f = seen.get((is_now, False, False)), seen.get((is_now, False, True))
        acc.c["evaluations"] += 1
        if p is not None and p == f and k:
            acc.mismatch("format_diff", f"{loc}/direction-indistinguishable",
                         {"kind": "uc", "loc": loc, "unit": unit, "k": k, "now": is_now}, p, "different phrases for earlier and later")


def _marker_parts(t):
    """(text before the count, last word - or last character where the script has no spaces - of the rest)."""
    m = re.search(r"\{[^}]*\}", t)
    pre, post = (t[:m.start()], t[m.end():]) if m else ("", t)
    post = post.strip()
    tail = (post.split()[-1] if " " in post else post[-1:]) if post else ""
    return pre.strip(), tail


def direction_markers(d):
    """The direction marker a locale uses for 'future' and for 'past' in its now-relative phrases, found by
    majority over all its (unit, plural class) templates: ('pre'|'tail', text) or None.  Derived from the tree's own
    data, so a locale may use any marker it likes; what is asserted is that a direction uses ONE marker throughout
    and that the two directions use different ones."""
    out = {}
    for direction in ("future", "past"):
        ts = []
        for unit in UNITS:
            node = look(d, f"translations.relative.{unit}.{direction}")
            if isinstance(node, dict):
                ts += [(unit, pc, t) for pc, t in node.items() if "{" in t]
        best = None
        for kind, idx in (("pre", 0), ("tail", 1)):
            cnt = collections.Counter(_marker_parts(t)[idx] for _, _, t in ts)
            cnt.pop("", None)
            if cnt:
                text, n = cnt.most_common(1)[0]
                if n * 10 >= len(ts) * 6 and (best is None or n > best[2]):
                    best = (kind, text, n)
        out[direction] = (best[:2] if best else None, ts)
    return out


def check_direction_data(acc, loc):
    """Every now-relative template of a direction carries that direction's marker; the two markers differ."""
    d = data(loc)
    mk = direction_markers(d)
    acc.c["evaluations"] += 1
    (mf, tf), (mp, tp) = mk["future"], mk["past"]
    if mf is None or mp is None:
        acc.c["direction_marker_undetermined"] += 1
        return
    if mf == mp:
        acc.mismatch("locale-data", f"{loc}/same-marker-both-directions", {"kind": "dir", "loc": loc}, list(mf), "distinct markers")
    for direction, (kind, text), ts in (("future", mf, tf), ("past", mp, tp)):
        for unit, pc, t in ts:
            acc.c["evaluations"] += 1
            acc.c["transitions"] += 1
            part = _marker_parts(t)[0 if kind == "pre" else 1]
            if part != text and not (kind == "pre" and part.startswith(text + " ")):
                acc.mismatch("locale-data", f"{loc}/{direction}-template-without-marker",
                             {"kind": "dir", "loc": loc, "unit": unit, "plural": pc, "direction": direction}, t,
                             f"{direction} marker {text!r} ({kind}) as in the locale's other {direction} templates")


def check_negative_duration(acc, pendulum, loc, kw):
    d = data(loc)
    dur = pendulum.Duration(**kw)
    comps = [abs(x) for x in (dur.years, dur.months, dur.weeks, dur.remaining_days, dur.hours, dur.minutes,
                              dur.remaining_seconds)]
    for is_now in (True, False):
        for absolute in (False, True):
            case = {"kind": "neg", "loc": loc, "kw": kw, "now": is_now, "abs": absolute}
            r = basic(acc, "format_diff", f"{loc}/negative-duration", case,
                      lambda: pendulum.format_diff(dur, is_now, absolute, loc))
            if r is None:
                continue
            ok = acceptable(d, comps, is_now, bool(dur.invert), absolute)
            if ok and r not in ok:
                acc.mismatch("format_diff", f"{loc}/negative-duration/phrase", case, r, sorted(ok))


FLOAT_BUILT = (({"milliseconds": 90000.5}, {"seconds": 90, "microseconds": 500}), ({"milliseconds": -7260000.0}, {"hours": -2, "minutes": -1}),
               ({"seconds": 90.0005}, {"seconds": 90, "microseconds": 500}), ({"minutes": 1.5}, {"seconds": 90}),
               ({"hours": 2.0, "milliseconds": 1500.0}, {"hours": 2, "seconds": 1, "microseconds": 500000}),
               ({"days": 1.5}, {"days": 1, "hours": 12}), ({"weeks": 0.5, "milliseconds": 250.0}, {"days": 3, "hours": 12, "microseconds": 250000}),
               ({"years": 1, "milliseconds": 3600000.0}, {"years": 1, "hours": 1}))


def check_float_built(acc, pendulum, loc):
    """A Duration built from float arguments words exactly like the equal Duration built from ints (whose phrases are
    judged against the locale data elsewhere): counts are whole numbers, never '1.0 minute'."""
    for fkw, ikw in FLOAT_BUILT:
        fd, idur = pendulum.Duration(**fkw), pendulum.Duration(**ikw)
        if obs.td_us(fd) != obs.td_us(idur):
            acc.c["seed_not_canonical"] += 1
            continue
        case = {"kind": "fb", "loc": loc, "kw": fkw}
        calls = [("in_words", lambda d: d.in_words(locale=loc)), ("in_words-sep", lambda d: d.in_words(locale=loc, separator=", "))]
        calls += [(f"format_diff/{int(n)}{int(a)}", (lambda n, a: lambda d: pendulum.format_diff(d, n, a, loc))(n, a))
                  for n in (True, False) for a in (False, True)]
        for name, fn in calls:
            r = basic(acc, "float-built", f"{loc}/{name}", case, lambda: fn(fd))
            w = basic(acc, "float-built", f"{loc}/{name}/int-twin", case, lambda: fn(idur))
            if r is not None and w is not None and r != w:
                acc.mismatch("float-built", f"{loc}/{name.split('/')[0]}/phrase", case, r, w)


def _digest(node):
    """Canonical JSON-able form of a locale table (rule functions are tabulated on 0..200)."""
    if isinstance(node, dict):
        return {str(k): _digest(v) for k, v in sorted(node.items(), key=lambda kv: str(kv[0]))}
    if isinstance(node, (list, tuple)):
        return [_digest(v) for v in node]
    if callable(node):
        out = []
        for n in range(0, 201):
            try:
                out.append(node(n))
            except Exception as e:  # noqa: BLE001
                out.append(type(e).__name__)
        return out
    return node if isinstance(node, (str, int, float, bool, type(None))) else repr(node)


def _tables_fresh(arg):
    """(fresh interpreter) load and use the locales of arg['order'] one after the other; report the table of every one of
    them as it stands at the END."""
    import pendulum
    from pendulum.locales.locale import Locale
    x = pendulum.datetime(2016, 8, 28, 7, 3, 6, 123456)
    y = pendulum.datetime(2016, 8, 20, 19, 3, 6)
    for loc in arg["order"]:
        for fn in (lambda: x.format("LLLL LLL LL L LTS LT dddd ddd dd MMMM MMM Do A", locale=loc), lambda: x.diff_for_humans(y, locale=loc),
                   lambda: y.diff_for_humans(x, locale=loc), lambda: (x - y).in_words(locale=loc), lambda: pendulum.from_format("28 8 2016", "D M YYYY", locale=loc),
                   lambda: pendulum.set_locale(loc), lambda: x.format("LLLL"), lambda: pendulum.set_locale("en")):
            try:
                fn()
            except Exception:  # noqa: BLE001
                pass
    return {loc: _digest(Locale.load(loc)._data) for loc in arg["order"]}


def check_locale_tables(acc, pendulum):
    """The shipped locale data are constants: the table of a locale is the same whether it is the only locale the process ever
    loads or one of many, loaded and used in either order (no locale's module, and no operation, writes into a table)."""
    canon = {}
    for loc in LOCALES:
        canon[loc] = worker.fresh_call("c18", "_tables_fresh", {"order": [loc]}, {})[loc]
        acc.c["states"] += 1
    for oname, order in (("alphabetical", list(LOCALES)), ("reverse", list(reversed(LOCALES)))):
        got = worker.fresh_call("c18", "_tables_fresh", {"order": order}, {})
        for loc in LOCALES:
            acc.c["evaluations"] += 1
            acc.c["transitions"] += 1
            if got[loc] != canon[loc]:
                def flat(d, pre=""):
                    out = {}
                    for k, v in (d.items() if isinstance(d, dict) else enumerate(d) if isinstance(d, list) else []):
                        if isinstance(v, (dict, list)):
                            out.update(flat(v, f"{pre}{k}."))
                        else:
                            out[f"{pre}{k}"] = v
                    return out
                fa, fb = flat(got[loc]), flat(canon[loc])
                keys = sorted(k for k in set(fa) | set(fb) if fa.get(k) != fb.get(k))[:4]
                acc.mismatch("locale-table", f"{loc}/changed-when-other-locales-are-loaded", {"kind": "tables", "loc": loc, "order": oname},
                             {k: fa.get(k) for k in keys}, {k: fb.get(k) for k in keys})


def check_time_now(acc, pendulum, loc):
    """Time.diff_for_humans() / Time.diff() WITHOUT a reference read "now" in pendulum's local timezone - also when that has
    been overridden with set_local_timezone().  The real clock is consulted once: a zone is chosen whose wall clock is well
    inside the day (so that +-5 min 30 s does not wrap) and at least three hours away from the machine's own zone."""
    import datetime as dt_
    import time as time_
    utc_now = dt_.datetime.now(dt_.timezone.utc)
    sys_off = time_.localtime().tm_gmtoff
    pick = None
    for n in range(-11, 13):
        h = (utc_now.hour + n) % 24
        if 3 <= h < 21 and abs(n * 3600 - sys_off) >= 3 * 3600:
            pick = n
            break
    if pick is None:
        acc.c["skipped_no_suitable_zone"] += 1
        return
    zone = "Etc/GMT%s%d" % ("-" if pick > 0 else "+", abs(pick)) if pick else "UTC"
    d = data(loc)
    pendulum.set_local_timezone(zone)
    try:
        base = pendulum.now().time()
        for future in (False, True):
            t = base.add(minutes=5, seconds=30) if future else base.subtract(minutes=5, seconds=30)
            for absolute in (False, True):
                case = {"kind": "timenow", "loc": loc, "future": future, "abs": absolute}
                r = basic(acc, "Time.diff_for_humans", f"{loc}/now", case, lambda: t.diff_for_humans(absolute=absolute, locale=loc))
                if r is None:
                    continue
                ok = acceptable(d, [0, 0, 0, 0, 0, 5, 30], True, future, absolute) | acceptable(d, [0, 0, 0, 0, 0, 5, 28], True, future, absolute)
                if ok and r not in ok:
                    acc.mismatch("Time.diff_for_humans", f"{loc}/now/phrase", case, r, sorted(ok))
            mins = t.diff().in_minutes()
            if mins != 5:
                acc.mismatch("Time.diff_for_humans", f"{loc}/now/diff-minutes", {"kind": "timenow", "loc": loc, "future": future, "abs": True}, mins, 5)
    finally:
        pendulum.set_local_timezone()


def check_date_time(acc, pendulum, loc):
    """Date.diff_for_humans and Time.diff_for_humans (explicit other)."""
    d = data(loc)
    for days in (0, 1, 3, 6, 7, 13, 27, 45, 400):
        for sign in (1, -1):
            a = pendulum.date(2021, 3, 10)
            b = a.add(days=sign * days)
            iv = pendulum.Interval(a, b, absolute=True)
            comps = interval_comps(iv)
            for absolute in (False, True):
                case = {"kind": "dt", "loc": loc}
                r = basic(acc, "Date.diff_for_humans", loc, case, lambda: a.diff_for_humans(b, absolute, locale=loc))
                ok = acceptable(d, comps, False, sign < 0, absolute)
                if r is not None and ok and r not in ok and days:
                    acc.mismatch("Date.diff_for_humans", f"{loc}/phrase", case, r, sorted(ok))
                # the reference may be any kind of date: the phrase is the one for the plain Date of that day
                import datetime as _dt
                for lbl, other in (("native-date", _dt.date(b.year, b.month, b.day)),
                                   ("pendulum-DateTime", pendulum.DateTime(b.year, b.month, b.day, 17, 30)),
                                   ("aware-DateTime", pendulum.datetime(b.year, b.month, b.day, 9, 0, tz="Asia/Tokyo")),
                                   ("native-datetime", _dt.datetime(b.year, b.month, b.day, 23, 59))):
                    r2 = basic(acc, "Date.diff_for_humans", f"{loc}/{lbl}", dict(case, other=lbl),
                               lambda: a.diff_for_humans(other, absolute, locale=loc))
                    if r2 is not None and r is not None and r2 != r:
                        acc.mismatch("Date.diff_for_humans", f"{loc}/{lbl}/phrase", dict(case, other=lbl), r2, r)
    for secs in (0, 5, 11, 59, 60, 3599, 3600, 7201, 80000):
        for sign in (1, -1):
            a = pendulum.time(12, 0, 0)
            b = a.add(seconds=sign * secs) if secs < 43000 else pendulum.time(23, 59, 59) if sign > 0 else pendulum.time(0, 0, 1)
            du = a.diff(b)
            comps = [du.years, du.months, du.weeks, du.remaining_days, du.hours, du.minutes, du.remaining_seconds]
            for absolute in (False, True):
                case = {"kind": "dt", "loc": loc}
                r = basic(acc, "Time.diff_for_humans", loc, case, lambda: a.diff_for_humans(b, absolute, locale=loc))
                ok = acceptable(d, comps, False, bool(du.invert), absolute)
                if r is not None and ok and r not in ok:
                    acc.mismatch("Time.diff_for_humans", f"{loc}/phrase", case, r, sorted(ok))


def ref_comps(ia, ib):
    """Reference decomposition of the span between two instants, both expressed in UTC (the documented reading
    for endpoints in differently named zones): whole months by floor (month shift with clamp), then the rest.
    Given two wall clocks of one zone at one offset it is the decomposition on that wall clock."""
    lo, hi = (ia, ib) if ia <= ib else (ib, ia)
    fa, fb = seeds.fields_of_wall(lo), seeds.fields_of_wall(hi)
    mt = (fb[0] - fa[0]) * 12 + (fb[1] - fa[1])

    def shifted(k):
        y, m, d = calref.add_months(fa[0], fa[1], fa[2], k)
        return obs.wall_us((y, m, d) + tuple(fa[3:]))
    if shifted(mt) > hi:
        mt -= 1
    rest = hi - shifted(mt)
    days, rest = divmod(rest, 86400 * US)
    return [mt // 12, mt % 12, days // 7, days % 7, rest // (3600 * US), rest // (60 * US) % 60, rest // US % 60]


def interval_comps(iv):
    return [iv.years, iv.months, iv.weeks, iv.remaining_days, iv.hours, iv.minutes, iv.remaining_seconds]


def check_pair(acc, pendulum, loc, ia, ib, use_global):
    """a.diff_for_humans(b[, absolute]) for two instants; direction and magnitude from the locale's data."""
    d = data(loc)
    a = obs.utc_dt(pendulum, ia).in_timezone("Europe/Paris")
    b = obs.utc_dt(pendulum, ib)
    comps = ref_comps(ia, ib)   # independent of pendulum's own decomposition (a is in Paris, b in UTC)
    future = ia > ib           # the instance is later than the reference
    for absolute in (False, True):
        case = {"kind": "pair", "loc": loc, "ia": ia, "ib": ib, "abs": absolute, "global": use_global}
        if use_global:
            pendulum.set_locale(loc)
            try:
                r = basic(acc, "diff_for_humans", f"{loc}/global-locale", case, lambda: a.diff_for_humans(b, absolute))
            finally:
                pendulum.set_locale("en")
        else:
            r = basic(acc, "diff_for_humans", loc, case, lambda: a.diff_for_humans(b, absolute, locale=loc))
        if r is None:
            continue
        ok = acceptable(d, comps, False, future, absolute)
        if ok and r not in ok:
            acc.mismatch("diff_for_humans", f"{loc}/{'global-locale/' if use_global else ''}phrase", case, r, sorted(ok))
    # the same two wall clocks as NAIVE values (receiver and reference both without a zone)
    na, nb = pendulum.DateTime(*seeds.fields_of_wall(ia)), pendulum.DateTime(*seeds.fields_of_wall(ib))
    for absolute in (False, True):
        case = {"kind": "pair", "loc": loc, "ia": ia, "ib": ib, "abs": absolute, "global": use_global, "naive": True}
        r = basic(acc, "diff_for_humans", f"{loc}/naive-pair", case, lambda: na.diff_for_humans(nb, absolute, locale=loc))
        if r is not None:
            ok = acceptable(d, comps, False, future, absolute)
            if ok and r not in ok:
                acc.mismatch("diff_for_humans", f"{loc}/naive-pair/phrase", case, r, sorted(ok))
    # format_diff() handed the Interval of the pair in each of its spellings (helper / class / diff / operator; absolute or
    # signed): the interval's start is the instance, its end the reference
    for sp, mk in (("interval(a,b,absolute=True)", lambda: pendulum.interval(a, b, absolute=True)), ("interval(a,b,True)", lambda: pendulum.interval(a, b, True)),
                   ("Interval(a,b,absolute=True)", lambda: pendulum.Interval(a, b, absolute=True)), ("interval(a,b)", lambda: pendulum.interval(a, b)),
                   ("a.diff(b)", lambda: a.diff(b)), ("a.diff(b,False)", lambda: a.diff(b, False)), ("b-a", lambda: b - a)):
        for is_now, absolute in ((False, False), (True, False), (False, True)):
            case = {"kind": "pair", "loc": loc, "ia": ia, "ib": ib, "abs": absolute, "global": use_global, "spelling": sp, "now": is_now}
            r = basic(acc, "format_diff", f"{loc}/interval-spelling", case, lambda: pendulum.format_diff(mk(), is_now, absolute, loc))
            if r is None:
                continue
            # (b - a is Interval(a, b): a is its start)
            ok = acceptable(d, comps, is_now, future, absolute)
            if ok and r not in ok:
                acc.mismatch("format_diff", f"{loc}/interval-spelling/phrase", case, r, sorted(ok))
    # Interval.in_words() of the same pair (components from the independent decomposition, sign of the direction)
    for iv_name, mk in (("b-a", lambda: b - a), ("a-b", lambda: a - b), ("diff", lambda: a.diff(b))):
        case = {"kind": "pair", "loc": loc, "ia": ia, "ib": ib, "global": use_global, "interval": iv_name}
        iv = mk()
        sign = 1 if iv_name == "diff" else (1 if (ib >= ia) == (iv_name == "b-a") else -1)
        r = basic(acc, "Interval.in_words", loc, case, lambda: iv.in_words(locale=loc))
        if r is None:
            continue
        parts = list(zip(UNITS, [sign * c for c in comps]))
        us = (max(ia, ib) - min(ia, ib)) % US
        e = expected_words(d, parts, us)
        if e is not None and r != e:
            acc.mismatch("Interval.in_words", f"{loc}/phrase", case, r, e)
    # relative to now (now injected)
    case = {"kind": "pair", "loc": loc, "ia": ia, "ib": ib, "abs": False, "global": use_global, "now": True}
    orig = pendulum.DateTime.__dict__["now"]
    pendulum.DateTime.now = classmethod(lambda cls, tz=None: b if tz is None else b.in_timezone(tz))
    try:
        r = basic(acc, "diff_for_humans", f"{loc}/now", case, lambda: a.diff_for_humans(locale=loc))
        # a naive receiver is compared with the naive local time
        rn = basic(acc, "diff_for_humans", f"{loc}/now/naive-receiver", dict(case, naive=True), lambda: na.diff_for_humans(locale=loc))
    finally:
        pendulum.DateTime.now = orig
    if rn is not None:
        ok = acceptable(d, comps, True, future, False)
        if ok and rn not in ok:
            acc.mismatch("diff_for_humans", f"{loc}/now/naive-receiver/phrase", dict(case, naive=True), rn, sorted(ok))
    if r is not None:
        ok = acceptable(d, comps, True, future, False)
        if ok and r not in ok:
            acc.mismatch("diff_for_humans", f"{loc}/now/phrase", case, r, sorted(ok))


def expected_words(d, parts, us):
    out = []
    for unit, c in parts:
        if abs(c) > 0:
            pat = look(d, f"translations.units.{unit}.{d['plural'](abs(c))}")
            if pat is None:
                return None
            out.append(fill(pat, c))
    if not out:
        if abs(us) > 0:
            pat = look(d, f"translations.units.second.{d['plural'](1)}")
            return None if pat is None else fill(pat, f"{abs(us) / 1e6:.2f}")
        pat = look(d, f"translations.units.microsecond.{d['plural'](0)}")
        return None if pat is None else fill(pat, 0)
    return " ".join(out)


def check_words(acc, pendulum, loc, kw):
    d = data(loc)
    dur = pendulum.Duration(**kw)
    case = {"kind": "words", "loc": loc, "kw": kw}
    r = basic(acc, "in_words", loc, case, lambda: dur.in_words(locale=loc))
    if r is None:
        return
    parts = [("year", dur.years), ("month", dur.months), ("week", dur.weeks), ("day", dur.remaining_days),
             ("hour", dur.hours), ("minute", dur.minutes), ("second", dur.remaining_seconds)]
    e = expected_words(d, parts, dur.microseconds)
    if e is not None and r != e:
        acc.mismatch("in_words", f"{loc}/phrase", case, r, e)
    r2 = basic(acc, "in_words", f"{loc}/separator", case, lambda: dur.in_words(locale=loc, separator=", "))
    if r2 is not None and e is not None and r2 != e.replace(" ", " ").replace(" ", " ") and r2.replace(", ", " ") != e:
        acc.mismatch("in_words", f"{loc}/separator", case, r2, e)


TOKENS = ("MMMM", "MMM", "dddd", "ddd", "dd", "Do", "do", "Mo", "Qo", "wo", "DDDo", "eo", "e", "A", "LT", "LTS", "L", "LL",
          "LLL", "LLLL")


def check_tokens(acc, pendulum, loc):
    d = data(loc)
    for month in range(1, 13):
        for day in (1, 2, 3, 4, 5, 6, 7):
            for hour in (3, 15):
                x = pendulum.datetime(2021, month, day, hour, 4, 5)
                for tok in TOKENS:
                    case = {"kind": "tok", "loc": loc, "m": month, "d": day, "h": hour, "tok": tok}
                    r = basic(acc, "format-token", f"{loc}/{tok}", case, lambda: x.format(tok, locale=loc))
                    if r is None:
                        continue
                    exp = None
                    if tok == "MMMM":
                        exp = look(d, "translations.months.wide")[month]
                    elif tok == "MMM":
                        exp = look(d, "translations.months.abbreviated")[month]
                    elif tok == "dddd":
                        exp = look(d, "translations.days.wide")[x.weekday()]
                    elif tok == "ddd":
                        exp = look(d, "translations.days.abbreviated")[x.weekday()]
                    elif tok == "dd":
                        exp = look(d, "translations.days.short")[x.weekday()]
                    elif tok == "A":
                        exp = look(d, "translations.day_periods." + ("pm" if hour >= 12 else "am"))
                    elif tok == "e":
                        fd = look(d, "translations.week_data.first_day")
                        if isinstance(fd, int):
                            exp = str((x.weekday() - fd) % 7)
                    if exp is not None and r != exp:
                        acc.mismatch("format-token", f"{loc}/{tok}/value", case, r, exp)


def check_meridiem_hours(acc, pendulum, loc):
    """The day-period token over the whole clock (both noon and midnight hours included), alone and inside the localized
    time / date-time formats whose pattern carries it."""
    d = data(loc)
    am, pm = look(d, "translations.day_periods.am"), look(d, "translations.day_periods.pm")
    fmts = look(d, "custom.date_formats") or {}
    default = {"LTS": "h:mm:ss A", "LT": "h:mm A", "LLL": "MMMM D, YYYY h:mm A", "LLLL": "dddd, MMMM D, YYYY h:mm A"}
    for hour in range(24):
        for minute, second in ((0, 0), (30, 15), (59, 59)):
            x = pendulum.datetime(2021, 5, 17, hour, minute, second)
            want = pm if hour >= 12 else am
            case = {"kind": "mer", "loc": loc, "h": hour, "mi": minute}
            r = basic(acc, "format-token", f"{loc}/A/every-hour", case, lambda: x.format("A", locale=loc))
            if r is not None and r != want:
                acc.mismatch("format-token", f"{loc}/A/every-hour/value", case, r, want)
            for tok in ("LT", "LTS", "LLL", "LLLL"):
                pat = (fmts.get(tok) if isinstance(fmts, dict) else None) or default[tok]
                if "A" not in pat.replace("MMMM", "").replace("MMM", ""):
                    continue
                r = basic(acc, "format-token", f"{loc}/{tok}/every-hour", dict(case, tok=tok), lambda: x.format(tok, locale=loc))
                other = am if want == pm else pm
                if r is not None and (want not in r or (other in r and other not in want)):
                    acc.mismatch("format-token", f"{loc}/{tok}/every-hour/day-period", dict(case, tok=tok), r, f"contains {want!r}")


CALLS = ("format_diff", "in_words", "format", "ordinalize", "from_format")


def _call(pendulum, loc, name):
    if name == "format_diff":
        return pendulum.format_diff(pendulum.duration(days=2), False, False, loc)
    if name == "in_words":
        return pendulum.duration(years=1, days=3, seconds=5).in_words(locale=loc)
    if name == "format":
        return pendulum.datetime(2021, 3, 2, 15).format("dddd Do MMMM YYYY LT eo", locale=loc)
    if name == "ordinalize":
        from pendulum.locales.locale import Locale
        return Locale.load(loc).ordinalize(22)
    if name == "from_format":
        txt = pendulum.datetime(2021, 3, 2, 15).format("D MMMM YYYY", locale=loc)
        return str(pendulum.from_format(txt, "D MMMM YYYY", locale=loc))
    raise KeyError(name)


def _safe(pendulum, loc, name):
    try:
        return ("ok", _call(pendulum, loc, name))
    except Exception as e:  # noqa: BLE001
        return ("raises", type(e).__name__)


def check_histories(acc, pendulum, loc):
    from pendulum.locales.locale import Locale
    base = {}
    for name in CALLS:
        Locale._cache.clear()
        base[name] = _safe(pendulum, loc, name)
    for n in (2, 3):
        for seq in itertools.permutations(CALLS, n):
            Locale._cache.clear()
            acc.c["evaluations"] += 1
            for i, name in enumerate(seq):
                r = _safe(pendulum, loc, name)
                acc.c["transitions"] += 1
                if r != base[name]:
                    acc.mismatch("history", f"{loc}/{name}-after-{'+'.join(seq[:i])}",
                                 {"kind": "hist", "loc": loc, "seq": list(seq)}, r, base[name])
    Locale._cache.clear()


POINTS = None


SI_ZONES = ("UTC", "America/New_York", "Asia/Tokyo", "Pacific/Auckland", "Asia/Kolkata")
SI_PAIRS = (((2023, 1, 31, 3, 0, 0), (2023, 2, 28, 3, 0, 0)), ((2023, 1, 30, 20, 30, 0), (2023, 2, 28, 20, 30, 0)),
            ((2022, 12, 31, 18, 0, 0), (2023, 1, 31, 12, 0, 0)), ((2023, 1, 1, 2, 0, 0), (2023, 1, 8, 2, 0, 0)),
            ((2023, 1, 15, 23, 30, 0), (2023, 1, 16, 1, 0, 0)), ((2021, 2, 28, 22, 0, 0), (2024, 2, 29, 4, 0, 0)))


def check_same_instant(acc, pendulum, loc, fa, fb):
    """The same two instants shown in several zones (both endpoints in one zone, same offset), evaluated one after the
    other in one process: each zone's phrase follows that zone's wall clock (the endpoints compare equal across zones)."""
    d = data(loc)
    ia, ib = obs.wall_us(fa + (0,)), obs.wall_us(fb + (0,))
    for z in SI_ZONES:
        (wa, oa), (wb, ob) = obs.expected_render(z, ia), obs.expected_render(z, ib)
        if oa != ob:
            continue
        tz = pendulum.timezone(z)
        a, b = obs.utc_dt(pendulum, ia).in_timezone(tz), obs.utc_dt(pendulum, ib).in_timezone(tz)
        comps = ref_comps(obs.wall_us(wa), obs.wall_us(wb))
        for recv, other, future in ((a, b, False), (b, a, True)):
            for absolute in (False, True):
                case = {"kind": "si", "loc": loc, "fa": list(fa), "fb": list(fb), "z": z}
                r = basic(acc, "diff_for_humans", f"{loc}/same-instant-other-zone", case, lambda: recv.diff_for_humans(other, absolute, locale=loc))
                ok = acceptable(d, comps, False, future, absolute)
                if r is not None and ok and r not in ok:
                    acc.mismatch("diff_for_humans", f"{loc}/same-instant-other-zone/phrase", case, r, sorted(ok))
        r = basic(acc, "Interval.in_words", loc, case, lambda: (b - a).in_words(locale=loc))
        e = expected_words(d, list(zip(UNITS, comps)), 0)
        if r is not None and e is not None and r != e:
            acc.mismatch("Interval.in_words", f"{loc}/same-instant-other-zone", case, r, e)


def check_straddle(acc, pendulum, loc, z, t, before_s, after_s):
    """Both endpoints in ONE named zone, on either side of an offset change: the phrase is within one unit of the true
    elapsed time.  (The library decomposes such a pair on the zone's wall clock; where that differs from the elapsed
    time by more than the statement allows it is the recorded finding C18-same-zone-straddle.)"""
    d = data(loc)
    tz = pendulum.timezone(z)
    ia, ib = (t - before_s) * US + 250000, (t + after_s) * US + 250000
    a, b = obs.utc_dt(pendulum, ia).in_timezone(tz), obs.utc_dt(pendulum, ib).in_timezone(tz)
    el = ib - ia
    days, rest = divmod(el, 86400 * US)
    comps = [0, 0, days // 7, days % 7, rest // (3600 * US), rest // (60 * US) % 60, rest // US % 60]
    wall = ref_comps(obs.wall_us(obs.expected_render(z, ia)[0]), obs.wall_us(obs.expected_render(z, ib)[0]))
    for recv, other, future in ((a, b, False), (b, a, True)):
        case = {"kind": "straddle", "loc": loc, "z": z, "t": t, "before": before_s, "after": after_s}
        r = basic(acc, "diff_for_humans", f"{loc}/same-zone-straddle", case, lambda: recv.diff_for_humans(other, locale=loc))
        ok = acceptable(d, comps, False, future, False)
        if r is not None and ok and r not in ok:
            kf = "C18-same-zone-straddle" if r in acceptable(d, wall, False, future, False) else None
            acc.mismatch("diff_for_humans", f"{loc}/same-zone-straddle/phrase", case, r, sorted(ok), kf=kf)


def check_sweep(acc, pendulum, loc, start, ndays):
    """Every whole-day distance 0..ndays from a start date (UTC values and Dates), both directions: unit and count."""
    d = data(loc)
    i0 = obs.wall_us(tuple(start) + (10, 0, 0, 0))
    a = obs.utc_dt(pendulum, i0)
    ad = pendulum.Date(*start)
    for k in range(ndays + 1):
        ib = i0 + k * 86400 * US
        b = obs.utc_dt(pendulum, ib)
        comps = ref_comps(i0, ib)
        case = {"kind": "sweep", "loc": loc, "start": list(start), "k": k}
        for recv, other, future in ((a, b, False), (b, a, True)):
            r = basic(acc, "diff_for_humans", f"{loc}/day-sweep", case, lambda: recv.diff_for_humans(other, locale=loc))
            ok = acceptable(d, comps, False, future, False)
            if r is not None and ok and r not in ok and k:
                acc.mismatch("diff_for_humans", f"{loc}/day-sweep/phrase", case, r, sorted(ok))
        if k:
            bd = pendulum.Date(b.year, b.month, b.day)
            r = basic(acc, "diff_for_humans", f"{loc}/day-sweep/date", case, lambda: ad.diff_for_humans(bd, locale=loc))
            ok = acceptable(d, comps, False, False, False)
            if r is not None and ok and r not in ok:
                acc.mismatch("diff_for_humans", f"{loc}/day-sweep/date/phrase", case, r, sorted(ok))
            # the same two dates as NATIVE values handed to Interval (it converts them itself)
            import datetime as dt_
            na_, nb_ = dt_.date(*start), dt_.date(b.year, b.month, b.day)
            e = expected_words(d, list(zip(UNITS, comps)), 0)
            for lbl, mk in (("native,native", lambda: pendulum.Interval(na_, nb_)), ("pendulum,native", lambda: pendulum.Interval(ad, nb_)),
                            ("native,pendulum", lambda: pendulum.Interval(na_, bd))):
                r = basic(acc, "Interval.in_words", f"{loc}/native-date-endpoints", dict(case, endpoints=lbl), lambda: mk().in_words(locale=loc))
                if r is not None and e is not None and r != e:
                    acc.mismatch("Interval.in_words", f"{loc}/native-date-endpoints", dict(case, endpoints=lbl), r, e)


def check_fixed_offset_pairs(acc, pendulum, loc):
    """Two values in DIFFERENT fixed-offset zones whose wall clocks fall on different dates (mirror-image offsets below one hour,
    offsets that differ only in their seconds, ordinary ones): the phrase counts the elapsed time between the two instants."""
    d = data(loc)
    base = calref.days_from_civil(2024, 1, 1) * 86400
    for oa, ob in ((-1800, 1800), (900, -900), (-3540, 3540), (-60, 60), (-1800, 3600), (19800, -16200), (-1800, 1800 + 86400 // 96)):
        for wa, gap in ((23 * 3600 + 40 * 60, 1800), (23 * 3600 + 40 * 60, 5400), (23 * 3600 + 59 * 60, 16 * 60), (22 * 3600, 3 * 3600 + 7)):
            ia = (base + wa - oa) * US
            ib = ia + gap * US
            a = obs.utc_dt(pendulum, ia).in_timezone(pendulum.FixedTimezone(oa))
            b = obs.utc_dt(pendulum, ib).in_timezone(pendulum.FixedTimezone(ob))
            comps = ref_comps(ia, ib)
            case = {"kind": "fixedpair", "loc": loc, "oa": oa, "ob": ob, "wa": wa, "gap": gap}
            acc.c["states"] += 1
            for recv, other, future in ((a, b, False), (b, a, True)):
                for absolute in (False, True):
                    r = basic(acc, "diff_for_humans", f"{loc}/fixed-offset-pair", case, lambda: recv.diff_for_humans(other, absolute, locale=loc))
                    if r is None:
                        continue
                    ok = acceptable(d, comps, False, future, absolute)
                    if ok and r not in ok:
                        acc.mismatch("diff_for_humans", f"{loc}/fixed-offset-pair/phrase", dict(case, future=future, abs=absolute), r, sorted(ok))
            w = basic(acc, "Interval.in_words", f"{loc}/fixed-offset-pair", case, lambda: (b - a).in_words(locale=loc))
            e = expected_words(d, list(zip(UNITS, comps)), (ib - ia) % US)
            if w is not None and e is not None and w != e:
                acc.mismatch("Interval.in_words", f"{loc}/fixed-offset-pair/phrase", case, w, e)


def check_fold_pair(acc, pendulum, loc):
    """A reference inside a repeated hour, first as its earlier then as its later occurrence (equal wall clocks, same
    tzinfo - they compare equal natively): 30 and 90 minutes after 01:00 EDT."""
    d = data(loc)
    tz = pendulum.timezone("America/New_York")
    a = pendulum.DateTime.create(2023, 11, 5, 1, 0, 0, 0, tz=tz, fold=0)
    for fold, minutes in ((0, 30), (1, 90), (0, 30)):
        b = pendulum.DateTime.create(2023, 11, 5, 1, 30, 0, 0, tz=tz, fold=fold)
        comps = [0, 0, 0, 0, minutes // 60, minutes % 60, 0]
        case = {"kind": "foldpair", "loc": loc}
        r = basic(acc, "diff_for_humans", f"{loc}/fold-pair", case, lambda: b.diff_for_humans(a, locale=loc))
        ok = acceptable(d, comps, False, True, False)
        if r is not None and ok and r not in ok:
            acc.mismatch("diff_for_humans", f"{loc}/fold-pair/phrase", dict(case, fold=fold), r, sorted(ok))
        r = basic(acc, "Interval.in_words", loc, case, lambda: (b - a).in_words(locale=loc))
        e = expected_words(d, list(zip(UNITS, comps)), 0)
        if r is not None and e is not None and r != e:
            acc.mismatch("Interval.in_words", f"{loc}/fold-pair", dict(case, fold=fold), r, e)


def points():
    global POINTS
    if POINTS is None:
        base = 1616893200 * US   # 2021-03-28T01:00:00Z (Paris DST start)
        deltas = [0, 1, 999999, US, 9 * US, 10 * US, 11 * US, 59 * US, 60 * US, 61 * US, 3599 * US, 3600 * US, 7200 * US,
                  22 * 3600 * US, 86399 * US, 86400 * US, 3 * 86400 * US, 4 * 86400 * US, 7 * 86400 * US, 13 * 86400 * US,
                  26 * 86400 * US, 27 * 86400 * US, 31 * 86400 * US, 45 * 86400 * US, 200 * 86400 * US, 345 * 86400 * US,
                  350 * 86400 * US, 365 * 86400 * US, 366 * 86400 * US, 580 * 86400 * US, 3653 * 86400 * US,
                  36525 * 86400 * US]
        POINTS = sorted({base + x for x in deltas} | {base - x for x in deltas[1::2]})
        # local first hours of the 1st of a month east of UTC (the UTC date is still in the previous month)
        for y, m, d in ((2023, 1, 31), (2024, 2, 29), (2023, 4, 30)):
            t0 = (calref.days_from_civil(y, m, d) * 86400 + 23 * 3600 + 1800) * US
            POINTS += [t0, t0 + 1800 * US, t0 + 2 * 3600 * US]
        # year-boundary pairs whose later day of month is the smaller one (the month borrow wraps to December)
        for y, m, d, hh in ((2022, 12, 20, 10), (2023, 1, 5, 9), (2023, 11, 25, 22), (2024, 1, 10, 3)):
            POINTS.append((calref.days_from_civil(y, m, d) * 86400 + hh * 3600) * US)
        POINTS = sorted(set(POINTS))
    return POINTS


def run_shard(shard):
    import pendulum
    acc = core.Acc(ID)
    k = shard["kind"]
    if k == "counts":
        for loc in shard["locales"]:
            for unit, ks in (("year", range(0, 1001)), ("week", range(0, 1001)), ("month", range(0, 12)),
                             ("day", range(0, 7)), ("hour", range(0, 24)), ("minute", range(0, 60)),
                             ("second", range(0, 60))):
                seen_plural = set()
                for kk in ks:
                    if not shard["thorough"] and kk > 130 and kk % 7 and kk not in (200, 1000):
                        continue
                    acc.c["states"] += 1
                    pc = data(loc)["plural"](kk)
                    with worker.guarded(acc, "format_diff", {"kind": "uc", "loc": loc, "unit": unit, "k": kk}):
                        check_unit_count(acc, pendulum, loc, unit, kk)
                    if pc not in seen_plural:
                        seen_plural.add(pc)
                        acc.c["nontrivial"] += 1     # a new (locale, unit, CLDR plural class) combination
        acc.sample({"locale": shard["locales"][0], "units": list(UNITS), "counts": "0..1000", "flags": ["now", "absolute", "past/future"]})
    elif k == "words":
        keys = ("years", "months", "weeks", "days", "hours", "minutes", "seconds", "microseconds")
        vals = {"years": 2, "months": 1, "weeks": 3, "days": 5, "hours": 21, "minutes": 1, "seconds": 22, "microseconds": 250000}
        for loc in shard["locales"]:
            for n in range(0, 9):
                for sub in itertools.combinations(keys, n):
                    for sign in (1, -1):
                        kw = {kk: sign * vals[kk] for kk in sub}
                        acc.c["states"] += 1
                        check_words(acc, pendulum, loc, kw)
            for kw in ({"days": -2}, {"hours": -5}, {"weeks": -3, "days": -1}, {"years": -1}, {"months": -2, "days": -1},
                       {"seconds": -30}, {"minutes": -1, "seconds": -5}, {"days": 2}, {"years": 1, "days": -1}):
                check_negative_duration(acc, pendulum, loc, kw)
            check_float_built(acc, pendulum, loc)
            check_time_now(acc, pendulum, loc)
            check_date_time(acc, pendulum, loc)
            check_direction_data(acc, loc)
            check_tokens(acc, pendulum, loc)
            check_meridiem_hours(acc, pendulum, loc)
            check_histories(acc, pendulum, loc)
            acc.c["nontrivial"] += 1
        acc.sample({"locale": shard["locales"][0], "in_words": "every subset of 8 components x sign", "tokens": list(TOKENS),
                    "histories": "all orderings of 2 and 3 distinct calls on a cold locale cache"})
    elif k == "locale-tables":
        check_locale_tables(acc, pendulum)
        acc.sample({"locale_tables": "each locale alone in a fresh interpreter vs all locales loaded and used in alphabetical / reverse order"})
    elif k == "sweep":
        for loc in shard["locales"]:
            for start in shard["starts"]:
                acc.c["states"] += 1
                acc.c["nontrivial"] += shard["ndays"]
                with worker.guarded(acc, "diff_for_humans", {"kind": "sweep", "loc": loc, "start": list(start), "k": -1}, 60):
                    check_sweep(acc, pendulum, loc, tuple(start), shard["ndays"])
        acc.sample({"day_sweep_from": [list(x) for x in shard["starts"]], "days": shard["ndays"], "locales": shard["locales"]})
    elif k == "same-instant":
        for loc in shard["locales"]:
            for fa, fb in SI_PAIRS:
                acc.c["states"] += len(SI_ZONES)
                acc.c["nontrivial"] += 1
                with worker.guarded(acc, "diff_for_humans", {"kind": "si", "loc": loc, "fa": list(fa), "fb": list(fb)}):
                    check_same_instant(acc, pendulum, loc, tuple(fa), tuple(fb))
            with worker.guarded(acc, "diff_for_humans", {"kind": "foldpair", "loc": loc}):
                check_fold_pair(acc, pendulum, loc)
            with worker.guarded(acc, "diff_for_humans", {"kind": "fixedpair", "loc": loc}):
                check_fixed_offset_pairs(acc, pendulum, loc)
            for z in ("Europe/Paris", "America/New_York", "Australia/Lord_Howe"):
                trs = [tr for tr in seeds.zone_transitions(z) if 1577836800 < tr[0] < 1640995200]
                for t, _ob, _oa in trs:
                    for before_s in (1800, 4500, 5 * 3600, 23 * 3600 + 900, 30 * 3600):
                        for after_s in (0, 900, 3600, 22 * 3600):
                            acc.c["nontrivial"] += 1
                            with worker.guarded(acc, "diff_for_humans", {"kind": "straddle", "loc": loc, "z": z, "t": t, "before": before_s, "after": after_s}):
                                check_straddle(acc, pendulum, loc, z, t, before_s, after_s)
        acc.sample({"same_instants_in": list(SI_ZONES), "pair": [list(SI_PAIRS[0][0]), list(SI_PAIRS[0][1])]})
    elif k == "pairs":
        pts = points()
        for loc in shard["locales"]:
            for ia in shard["left"]:
                for ib in pts:
                    acc.c["states"] += 1
                    ug = ((ia + ib) // US % 3 == 0)
                    with worker.guarded(acc, "diff_for_humans", {"kind": "pair", "loc": loc, "ia": ia, "ib": ib, "global": ug}):
                        check_pair(acc, pendulum, loc, ia, ib, use_global=ug)
        acc.sample({"pair": [obs.iso(shard["left"][0]), obs.iso(pts[3])], "locales": shard["locales"]})
    return acc.result()


def replay_case(case, acc):
    import pendulum
    k = case["kind"]
    if k == "uc":
        check_unit_count(acc, pendulum, case["loc"], case["unit"], case["k"])
    elif k == "pair":
        check_pair(acc, pendulum, case["loc"], case["ia"], case["ib"], case.get("global", False))
    elif k == "si":
        check_same_instant(acc, pendulum, case["loc"], tuple(case["fa"]), tuple(case["fb"]))
    elif k == "sweep":
        check_sweep(acc, pendulum, case["loc"], tuple(case["start"]), 800)
    elif k == "straddle":
        check_straddle(acc, pendulum, case["loc"], case["z"], case["t"], case["before"], case["after"])
    elif k == "foldpair":
        check_fold_pair(acc, pendulum, case["loc"])
    elif k == "words":
        check_words(acc, pendulum, case["loc"], case["kw"])
    elif k == "neg":
        check_negative_duration(acc, pendulum, case["loc"], case["kw"])
    elif k == "dt":
        check_date_time(acc, pendulum, case["loc"])
    elif k == "dir":
        check_direction_data(acc, case["loc"])
    elif k == "mer":
        check_meridiem_hours(acc, pendulum, case["loc"])
    elif k == "fixedpair":
        check_fixed_offset_pairs(acc, pendulum, case["loc"])
    elif k == "timenow":
        check_time_now(acc, pendulum, case["loc"])
    elif k == "tables":
        check_locale_tables(acc, pendulum)
    elif k == "fb":
        check_float_built(acc, pendulum, case["loc"])
    elif k == "tok":
        check_tokens(acc, pendulum, case["loc"])
    elif k == "hist":
        check_histories(acc, pendulum, case["loc"])


def plan(tier, seed):
    thorough = tier == "thorough"
    shards = []
    for loc in LOCALES:
        shards.append({"kind": "counts", "locales": [loc], "thorough": thorough})
        shards.append({"kind": "words", "locales": [loc]})
    pts = points()
    rot = [LOCALES[(seed * 5 + i * 7) % len(LOCALES)] for i in range(3)]
    locs = list(LOCALES) if thorough else sorted({"en", "fr", "ru", "zh", "nl", "pl"} | set(rot))
    for loc in locs:
        for ch in seeds.chunks(pts, 4):
            shards.append({"kind": "pairs", "locales": [loc], "left": ch})
    shards.append({"kind": "same-instant", "locales": locs})
    shards.append({"kind": "locale-tables"})
    for st in ((2021, 1, 1), (2020, 1, 31), (2023, 3, 15), (2023, 12, 31 - seed % 3)):
        shards.append({"kind": "sweep", "locales": ["en", rot[0]], "starts": [st], "ndays": 800})
    # unit and count come from precise_diff: the instant pairs also run on its pure-Python twin
    py = shards if thorough else [sh for sh in shards if sh["kind"] in ("pairs", "same-instant", "sweep")] + [sh for sh in shards if sh["kind"] == "words"][::3]
    return [({"ext": 1, "tz": "sys"}, shards), ({"ext": 0, "tz": "sys"}, py)]


def evidence(m, tier, seed):
    c = m.c
    return {"coverage": {
        "evaluations": c["evaluations"], "states": c["states"], "transitions": c["transitions"],
        "traces_validated_against_impl": c["transitions"],
        "distinct_nontrivial": c["nontrivial"],
        "rule": "27 locales x {year, week: counts 0..1000 (quick: 0..130 and every 7th above); month 0..11; day 0..6; hour "
                "0..23; minute, second 0..59} x {now, other} x {past, future} x {absolute}; in_words for every subset of 8 "
                "Duration components x sign x 27 locales; 20 locale tokens x 12 months x 7 weekdays x am/pm x 27 locales; "
                "per locale, every now-relative template of a direction must carry the direction marker the majority of that "
                "locale's templates carry and the two markers must differ; phrases for k units earlier and k units later "
                "must differ; call-order histories (all orderings of 2 and 3 of 5 calls) per locale on a cold cache; all ordered pairs "
                "of a 56-point instant set through diff_for_humans (other / now injected / absolute, explicit and global "
                "locale) for 6+3 locales (thorough: all); non-trivial = distinct (locale, unit, CLDR plural class) combinations reached + locale batches",
        "exhaustive": True,
        "direction_marker_undetermined": c["direction_marker_undetermined"],
    }, "assumptions": ["expected phrases are built from the locale's own data files (pendulum.locales.<loc>.locale)",
                       "magnitude: count in {k, k+1} of the largest non-zero unit, promotion to the next unit allowed - "
                       "the exact rounding thresholds are not documented and not asserted"]}
