"""C16 - weekday navigation lands on the right day inside the right unit.

States     : Date and DateTime receivers: every month shape of a 28-year cycle plus century years (quick: days
             1/15/last of each month for the unit operations, every day for next/previous; thorough: every day);
             DateTimes in the witness zones and in every zone/day whose midnight is skipped or repeated or that is
             skipped entirely, receivers with fold 0 and 1.
Operations : next / previous (7 weekdays + None, keep_time), first_of / last_of (month, quarter, year; weekday or
             None), nth_of (n = 1..6 month, 1..15 quarter, 1..54 year).
Oracle     : calref date arithmetic: nearest strictly later/earlier weekday 1..7 days away; first/last/n-th inside
             the unit or PendulumException; zone kept; time 00:00 (either C02 reading of 00:00 on the RESULT date is
             accepted where that wall time is skipped/repeated) unless keep_time; terminates (horizon).
"""
from __future__ import annotations

from .. import core, obs, seeds, worker
from ..ref import calref, tzref
from . import c12, navmodel

ID = "C16"
AMBIENT = {"locale": "fr"}     # this module varies the other setting itself
US = 1_000_000
_TZ = {}
NMAX = {"month": 6, "quarter": 15, "year": 54}


def _tz(pendulum, z):
    t = _TZ.get(z)
    if t is None:
        t = _TZ[z] = pendulum.timezone(z)
    return t


def unit_range(y, m, unit):
    if unit == "month":
        return calref.days_from_civil(y, m, 1), calref.days_from_civil(y, m, calref.days_in_month(y, m))
    if unit == "quarter":
        q = (m - 1) // 3
        m0, m1 = q * 3 + 1, q * 3 + 3
        return calref.days_from_civil(y, m0, 1), calref.days_from_civil(y, m1, calref.days_in_month(y, m1))
    return calref.days_from_civil(y, 1, 1), calref.days_from_civil(y, 12, 31)


def wd_of(n):
    return (n + 3) % 7   # 0 = Monday (pendulum.WeekDay numbering)


def ref_next(n, wd):
    cur = wd_of(n)
    if wd is None:
        wd = cur
    return n + ((wd - cur - 1) % 7 + 1)


def ref_prev(n, wd):
    cur = wd_of(n)
    if wd is None:
        wd = cur
    return n - ((cur - wd - 1) % 7 + 1)


def ref_first(lo, wd):
    return lo if wd is None else lo + (wd - wd_of(lo)) % 7


def ref_last(hi, wd):
    return hi if wd is None else hi - (wd_of(hi) - wd) % 7


def expected_date(op, n, y, m, unit, wd, nth):
    """Returns day number, or 'raise' for PendulumException."""
    if op == "next":
        return ref_next(n, wd)
    if op == "previous":
        return ref_prev(n, wd)
    lo, hi = unit_range(y, m, unit)
    if op == "first_of":
        return ref_first(lo, wd)
    if op == "last_of":
        return ref_last(hi, wd)
    r = ref_first(lo, wd) + 7 * (nth - 1)
    return r if r <= hi else "raise"


def _call(pendulum, x, op, unit, wd, nth, keep_time):
    # the weekday argument is accepted as a WeekDay member or as a plain int: both forms are used (the choice is a
    # function of the receiver and n, so a replay makes the same one)
    w = None if wd is None else (int(wd) if (x.day + (nth or 0)) % 2 else pendulum.WeekDay(wd))
    worker.horizon(0.5)
    try:
        if op == "next":
            r = x.next(w, keep_time=(True if x.day % 2 else 1)) if keep_time else x.next(w)
        elif op == "previous":
            r = x.previous(w, keep_time=(True if x.day % 2 else 1)) if keep_time else (x.previous(w, keep_time=0) if (x.day % 2 == 0 and isinstance(x, pendulum.DateTime)) else x.previous(w))
        elif op == "first_of":
            r = x.first_of(unit, w)
        elif op == "last_of":
            r = x.last_of(unit, w)
        else:
            r = x.nth_of(unit, nth, w)
        return "ok", r
    except worker.Hang:
        return "HANG", None
    except pendulum.exceptions.PendulumException:
        return "raise", None
    except Exception as e:  # noqa: BLE001
        return type(e).__name__, None
    finally:
        worker.horizon(worker.SHARD_WATCHDOG)


_KFC = {}


def kf_anomalous_day(z, x_fields, op, unit, res_n):
    key = (z, tuple(x_fields), op in ("next", "previous"), unit)
    v = _KFC.get(key)
    if v is None:
        v = _KFC[key] = _kf_anomalous_day(z, x_fields, op, unit, res_n)
    return v


def _kf_anomalous_day(z, x_fields, op, unit, res_n):
    """C16-anomalous-midnight: some local day the algorithm passes through (the receiver's day +-1, the days of
    the unit from one day before its first to eight days after its last day for first_of/last_of/nth_of, the days
    between receiver and result +-8 for next/previous) has a skipped or repeated 00:00:00 or time-of-day wall
    time, or does not exist at all in the zone."""
    if z is None or isinstance(z, int) or z == "date":
        return False
    y, m, d = x_fields[:3]
    n0 = calref.days_from_civil(y, m, d)
    days = {n0 - 1, n0, n0 + 1}
    if op in ("next", "previous"):
        days.update(range(n0 - 9, n0 + 10))
    else:
        lo, hi = unit_range(y, m, unit)
        days.update(range(lo - 1, hi + 9))
    tod = tuple(x_fields[3:7])
    for n in sorted(days):
        yy, mm, dd = calref.civil_from_days(n)
        if not (2 <= yy <= 9998):
            continue
        for t in ((0, 0, 0, 0), tod, (23, 59, 59, 999999)):
            if c12._wall_kind(z, (yy, mm, dd) + t) != "unique":
                return True
    return False


def check_op(acc, pendulum, z, x, xf, op, unit, wd, nth, keep_time=False, foreign_kind=None):
    """z: zone name / None (naive) / 'date'.  x: receiver.  xf: its fields (7-tuple, zeros for Date)."""
    y, m, d = xf[:3]
    n = calref.days_from_civil(y, m, d)
    exp = expected_date(op, n, y, m, unit, wd, nth)
    case = {"kind": "op", "z": z, "f": list(xf), "fold": getattr(x, "fold", 0), "op": op, "unit": unit, "wd": wd, "ws": _WS[0],
            "nth": nth, "keep": keep_time}
    if foreign_kind:
        case["foreign"] = list(foreign_kind)
    if exp != "raise":
        ey = calref.civil_from_days(exp)[0]
        if not (2 <= ey <= 9998):
            return
    status, r = _call(pendulum, x, op, unit, wd, nth, keep_time)
    acc.c["evaluations"] += 1
    acc.c["transitions"] += 1
    sub = op if unit is None else f"{op}({unit})"

    def kf():
        # known finding only if the input is in the anomalous class AND the observation is exactly what the documented
        # day-walking composition (navmodel) produces there; anything else is reported
        if not kf_anomalous_day(z, xf, op, unit, None):
            return None
        if status == "ok":
            seen = ("ok", obs.fields(r), obs.offset_s(r))
        else:
            seen = (status,)
        model = navmodel.emulate(z, tuple(xf), case["fold"], op, unit, wd, nth, keep_time)
        return "C16-anomalous-midnight" if model == seen else None

    if exp == "raise":
        acc.outcomes["nth-outside-unit"] += 1
        if status != "raise":
            acc.mismatch(sub, "should-raise", case, status if status != "ok" else
                         [r.year, r.month, r.day], "PendulumException", kf=kf())
        return
    ed = calref.civil_from_days(exp)
    if status != "ok":
        acc.mismatch(sub, status, case, status, list(ed), kf=kf())
        return
    got_d = (r.year, r.month, r.day)
    if got_d != ed:
        acc.mismatch(sub, "wrong-date", case, list(got_d), list(ed), kf=kf())
        return
    if z == "date":
        if type(r) is not pendulum.Date:
            acc.mismatch(sub, "type", case, type(r).__name__, "Date")
        return
    want_name = x.timezone_name
    if want_name is None and x.tzinfo is not None:       # foreign tzinfo: kept as its pendulum equivalent
        want_name = z if isinstance(z, str) else _tz(pendulum, z).name
    if type(r) is not pendulum.DateTime or r.timezone_name != want_name:
        acc.mismatch(sub, "zone-or-type", case, [type(r).__name__, r.timezone_name], ["DateTime", want_name])
        return
    want_t = tuple(xf[3:7]) if keep_time else (0, 0, 0, 0)
    wall = ed + want_t
    if z is None or isinstance(z, int):
        ok = obs.fields(r) == wall
        accept = [wall]
    else:
        accept = []
        for fold in (0, 1):
            kind, inst = tzref.normalize(tzref.zone(z), wall, fold)
            if inst is not None:
                accept.append(obs.expected_render(z, inst))
        ok = (obs.fields(r), obs.offset_s(r)) in accept
    if not ok:
        acc.mismatch(sub, "wrong-time", case, [obs.fields(r), obs.offset_s(r)], [list(a) for a in accept][:2], kf=kf())


def ops_for(thorough, full_day):
    """(op, unit, wd, nth, keep) menu."""
    out = []
    wds = [None, 0, 1, 2, 3, 4, 5, 6]
    for wd in wds:
        out.append(("next", None, wd, None, False))
        out.append(("previous", None, wd, None, False))
    out.append(("next", None, 2, None, True))
    out.append(("previous", None, 6, None, True))
    if not full_day:
        return out
    for unit in ("month", "quarter", "year"):
        for wd in wds:
            out.append(("first_of", unit, wd, None, False))
            out.append(("last_of", unit, wd, None, False))
        for wd in wds[1:]:
            if unit == "year":
                ns = range(1, 55) if thorough else (1, 2, 27, 52, 53, 54)
            elif unit == "quarter":
                ns = range(1, 16) if thorough else (1, 2, 3, 12, 13, 14, 15)
            else:
                ns = range(1, NMAX[unit] + 1)
            for nth in ns:
                out.append(("nth_of", unit, wd, nth, False))
    return out


_WS = [0]


def _set_week(pendulum, ws):
    """The process-wide first day of the week: none of the navigation results may depend on it."""
    c12._set_week(pendulum, ws)
    _WS[0] = ws
    import calendar as _calendar
    _calendar.setfirstweekday(int(ws))     # the stdlib's own process-wide first weekday travels with it


def run_shard(shard):
    import pendulum
    _set_week(pendulum, shard.get("ws", 0))
    try:
        return _run_shard(shard, pendulum)
    finally:
        _set_week(pendulum, 0)


def _run_shard(shard, pendulum):
    acc = core.Acc(ID)
    k = shard["kind"]
    thorough = shard["thorough"]
    if k == "calendar":
        menu_full = ops_for(thorough, True)
        menu_np = ops_for(thorough, False)
        for y, m in shard["months"]:
            dim = calref.days_in_month(y, m)
            acc.c["nontrivial"] += 1
            for d in range(1, dim + 1):
                full = thorough or d in (1, 15, dim)
                menu = menu_full if full else menu_np
                # quick tier: quarter operations from 3 dates per quarter, year operations from 3 dates per year
                q_ok = thorough or (m % 3 == 1 and d == 1) or (m % 3 == 2 and d == 15) or (m % 3 == 0 and d == dim)
                y_ok = thorough or (m, d) in ((1, 1), (6, 15), (12, 31))
                acc.c["states"] += 1
                xd = pendulum.Date(y, m, d)
                xt = pendulum.DateTime(y, m, d, 13, 30, 15, 5, tzinfo=pendulum.UTC)
                xn = pendulum.DateTime(y, m, d, 23, 59, 59, 999999)
                fo = (19800, -10800, 3600)[m % 3]
                xo = pendulum.DateTime(y, m, d, 6, 45, 0, 999, tzinfo=_tz(pendulum, fo))
                for op, unit, wd, nth, keep in menu:
                    if (unit == "quarter" and not q_ok) or (unit == "year" and not y_ok):
                        continue
                    if not keep:
                        check_op(acc, pendulum, "date", xd, (y, m, d, 0, 0, 0, 0), op, unit, wd, nth)
                    check_op(acc, pendulum, "UTC", xt, (y, m, d, 13, 30, 15, 5), op, unit, wd, nth, keep)
                    if unit is None or nth in (None, 1, 5, 14, 53):
                        check_op(acc, pendulum, None, xn, (y, m, d, 23, 59, 59, 999999), op, unit, wd, nth, keep)
                    # a pendulum fixed-offset zone (its name is not a tz database key)
                    if full and (unit in ("quarter", "year") or nth in (None, 1, 5)) and (wd is None or (wd + d) % 2 == 0):
                        check_op(acc, pendulum, fo, xo, (y, m, d, 6, 45, 0, 999), op, unit, wd, nth, keep)
        acc.sample({"month": list(shard["months"][0]), "ops": ["next", "previous", "first_of", "last_of", "nth_of"],
                    "receivers": ["Date", "DateTime(UTC)", "naive DateTime"]})
    elif k == "zones":
        menu = [o for o in ops_for(False, True) if o[1] in (None, "month") or (o[1] == "quarter" and o[3] in (None, 2, 14))]
        for z in shard["zones"]:
            tzobj = _tz(pendulum, z)
            trs = c12.anomalous_transitions(z)
            if shard["limit"]:
                trs = seeds.pick_transitions(trs, shard["limit"], shard["seed"])
            extra = seeds.pick_transitions(seeds.zone_transitions(z), 2, shard["seed"]) if z in shard["witness"] else []
            for t, ob, oa in trs + extra:
                n0 = (t + max(ob, oa)) // 86400
                for dn in (n0 - 1, n0, n0 + 1, n0 + 4):
                    y, m, d = calref.civil_from_days(dn)
                    if not (3 <= y <= 9996):
                        continue
                    for fold in (0, 1):
                        for tod in ((12, 0, 0, 0),) + (((0, 30, 0, 0),) if shard['thorough'] else ()):
                            x = pendulum.DateTime.create(y, m, d, *tod, tz=tzobj, fold=fold)
                            xf = obs.fields(x)
                            acc.c["states"] += 1
                            acc.c["nontrivial"] += 1
                            for op, unit, wd, nth, keep in menu:
                                if wd in (None, 0, 3, 5):
                                    check_op(acc, pendulum, z, x, xf, op, unit, wd, nth, keep)
            if trs:
                acc.sample({"zone": z, "anomalous_midnight_transition": obs.iso(trs[0][0] * US)})
    elif k == "foreign":
        # receivers whose tzinfo is not a pendulum timezone: a zoneinfo object (kept as the named zone), a stdlib fixed
        # offset and a DST-aware tzinfo without a key (kept as the offset in force at the receiver) - also inside the
        # repeated hour, where the fold decides that offset
        from .. import foreign
        menu = [o for o in ops_for(False, True) if o[1] in (None, "month") and o[2] in (None, 0, 3, 6)]
        for zn in shard["zones"]:
            trs = [tr for tr in seeds.zone_transitions(zn) if 1546300800 < tr[0] < 1672531200]
            for t, ob, oa in trs:
                for dlt in (-3 * 86400, -1800, 0, 1800, 3 * 86400 + 5):
                    inst = (t + dlt) * US + 250000
                    f, xo = obs.expected_render(zn, inst)
                    sol = tzref.zone(zn).solve(obs.wall_us(f) // US)
                    fold = 1 if (len(sol) == 2 and sol[1] * US + 250000 == inst) else 0
                    for kind, zz, tzi in (("keyless", xo, foreign.keyless(zn)), ("stdlib", xo, foreign.fixed(xo)), ("zoneinfo", zn, foreign.zi(zn))):
                        x = pendulum.DateTime(*f, tzinfo=tzi, fold=fold)
                        if obs.instant_us(x) != inst:
                            acc.c["seed_not_canonical"] += 1
                            continue
                        acc.c["states"] += 1
                        acc.c["nontrivial"] += 1
                        for op, unit, wd, nth, keep in menu:
                            check_op(acc, pendulum, zz, x, f, op, unit, wd, nth, keep, foreign_kind=(kind, zn))
        acc.sample({"foreign_tzinfo_receivers_in": shard["zones"], "kinds": ["keyless DST tzinfo", "datetime.timezone", "zoneinfo"]})
    return acc.result()


def replay_case(case, acc):
    import pendulum
    z = case["z"]
    f = tuple(case["f"])
    if z == "date":
        x = pendulum.Date(*f[:3])
    elif z is None:
        x = pendulum.DateTime(*f)
    elif case.get("foreign"):
        from .. import foreign
        kind, zn = case["foreign"]
        tzi = {"keyless": lambda: foreign.keyless(zn), "stdlib": lambda: foreign.fixed(z), "zoneinfo": lambda: foreign.zi(zn)}[kind]()
        x = pendulum.DateTime(*f, tzinfo=tzi, fold=case.get("fold", 0))
    else:
        x = pendulum.DateTime.create(*f, tz=_tz(pendulum, z), fold=case.get("fold", 1))
    _set_week(pendulum, case.get("ws", 0))
    try:
        check_op(acc, pendulum, z, x, f, case["op"], case["unit"], case["wd"], case["nth"], case["keep"],
                 foreign_kind=tuple(case["foreign"]) if case.get("foreign") else None)
    finally:
        _set_week(pendulum, 0)


def plan(tier, seed):
    thorough = tier == "thorough"
    years = list(range(2000, 2028)) + [1900, 2100, 1 + 2 + (seed % 5), 9990]
    months = [(y, m) for y in years for m in range(1, 13)]
    zones = list(seeds.all_zones())
    wz = seeds.witness_zones(seed, 2)
    # zone shards first: they contain the non-terminating cases (each costs a horizon)
    shards = [{"kind": "zones", "zones": ch, "limit": 0 if thorough else 2, "seed": seed, "witness": wz,
               "thorough": thorough} for ch in seeds.chunks(zones, 200)]
    shards += [{"kind": "calendar", "months": ch, "thorough": thorough} for ch in seeds.chunks(months, 128)]
    shards.append({"kind": "foreign", "zones": ["Europe/Paris", "America/New_York", "Australia/Lord_Howe"], "thorough": thorough})
    # the same navigation under other first-days-of-the-week (a process-wide setting the results must not depend on)
    wmonths = [(y, m) for y in (range(2000, 2028) if thorough else (2023, 2024)) for m in range(1, 13)]
    for ws in ((1, 2, 3, 4, 5, 6) if thorough else (6, 3 + seed % 3)):
        shards += [{"kind": "calendar", "months": ch, "thorough": thorough, "ws": ws} for ch in seeds.chunks(wmonths, 128)]
    return [({"ext": 1, "tz": "sys"}, shards)]


def evidence(m, tier, seed):
    c = m.c
    return {"coverage": {
        "evaluations": c["evaluations"], "states": c["states"], "transitions": c["transitions"],
        "traces_validated_against_impl": c["transitions"],
        "distinct_nontrivial": c["nontrivial"],
        "rule": "receivers: every day of every month of a 28-year cycle (2000-2027: all 28 month shapes, all quarter and "
                "year shapes) + 1900, 2100, one seed-rotated early year and 9990, as Date / DateTime(UTC) / naive "
                "DateTime; next/previous for 7 weekdays + None (+ keep_time) on every day; first_of/last_of/nth_of "
                "(month n=1..6, quarter n=1..15, quarter n in {1,2,3,12..15}, year n in {1,2,27,52,53,54}; thorough: all n) on days 1/15/last "
                "(thorough: every day); plus DateTimes (fold 0 and 1, 12:00 and 00:30) on the days around every "
                "transition whose skipped/repeated wall interval touches a day boundary in every zone (quick: 2 per "
                "zone); the calendar part again for 2023-2024 (thorough: the whole cycle) with the first day of the week "
                "set to Sunday and one other day (thorough: all six); non-trivial = month shapes + anomalous-midnight receivers",
        "exhaustive": True,
    }, "assumptions": ["reference TZif reader for anomalous-midnight zones"]}
