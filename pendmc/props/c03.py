"""C03 - adding fixed-length units moves the instant by exactly that elapsed time.

States      : aware DateTimes at P(t) around offset transitions of every zone (both folds occur
              naturally), a 37-year grid, fixed offsets, naive values.
Operations  : add / subtract (hours, minutes, seconds, microseconds), + / - timedelta, then the inverse.
Oracle      : instant' = instant + amount in integer microseconds; fields and offset = tzref rendering;
              zone name kept; subtract() returns to the original fields and offset; naive values shift
              their own clock.
"""
from __future__ import annotations

import datetime as dt_

from .. import worker
from .. import core, obs, seeds
from ..ref import tzref

ID = "C03"
US = 1_000_000


def _amounts(thorough: bool):
    A = []

    def one(**kw):
        A.append(kw)

    for h in (1, -1, 23, 24, 25, -23, -24, -25, 277777):
        one(hours=h)
    for m in (1, -1, 59, 60, 61, -59, -60, -61, 1440, -1441):
        one(minutes=m)
    for s in (1, -1, 59, 60, 61, -59, -60, -61, 86399, -86399, 86400, 10 ** 9, -10 ** 9, 3599, -3601):
        one(seconds=s)
    for u in (1, -1, 999999, 10 ** 6, 10 ** 6 + 1, -999999, -10 ** 6, -(10 ** 6 + 1), 86400 * 10 ** 6 + 1):
        one(microseconds=u)
    one(hours=1, minutes=-61)
    one(hours=-1, seconds=3601)
    one(minutes=59, seconds=59, microseconds=999999)
    one(minutes=-59, seconds=-59, microseconds=-999999)
    one(hours=23, minutes=59, seconds=59, microseconds=999999)
    one(hours=-23, minutes=-59, seconds=-59, microseconds=-999999)
    one(hours=1, microseconds=-1)
    one(seconds=-1, microseconds=1)
    one(seconds=1, microseconds=-1)
    one(minutes=-1, seconds=61, microseconds=-1000001)
    one(hours=2, minutes=-120, seconds=1)
    one(hours=-2, minutes=119, seconds=59, microseconds=1000001)
    one(hours=24, minutes=60, seconds=60, microseconds=1000000)
    one(hours=-24, minutes=-60, seconds=-60, microseconds=-1000000)
    one(seconds=0)
    # mixed signs whose bare numbers add up to zero (the amounts do not)
    one(hours=1, minutes=-1)
    one(minutes=30, seconds=-30)
    one(seconds=1, microseconds=-1)
    one(hours=2, minutes=-1, seconds=-1)
    one(hours=-3, seconds=3)
    one(minutes=-7, microseconds=7)
    # amounts that are not ints but denote a whole number of microseconds exactly (dyadic floats, a bool)
    one(hours=1.5)
    one(hours=-0.5)
    one(minutes=90.5)
    one(seconds=0.25)
    one(seconds=-1.5, microseconds=2.0)
    one(hours=True)
    one(minutes=0.5, seconds=-30, microseconds=1)
    one(hours=25.0)
    if thorough:
        vals = {"hours": (0, 1, -1, 23, -25), "minutes": (0, 1, -1, 59, -61),
                "seconds": (0, 1, -59, 60, -3601), "microseconds": (0, 1, -1, 999999, -1000001)}
        for h in vals["hours"]:
            for m in vals["minutes"]:
                for s in vals["seconds"]:
                    for u in vals["microseconds"]:
                        kw = {k: v for k, v in (("hours", h), ("minutes", m), ("seconds", s),
                                                ("microseconds", u)) if v}
                        if len(kw) >= 2:
                            A.append(kw)
    return A


class _Elapsed(dt_.timedelta):
    def __repr__(self):
        return f"Elapsed({dt_.timedelta.__repr__(self)})"


def _total_us(kw):
    from fractions import Fraction as Fr
    t = ((Fr(kw.get("hours", 0)) * 3600 + Fr(kw.get("minutes", 0)) * 60 + Fr(kw.get("seconds", 0))) * US
         + Fr(kw.get("microseconds", 0)))
    assert t.denominator == 1, kw
    return int(t)


_LO = tzref.MIN_T * US
_HI = tzref.MAX_T * US


_TZ = {}


def _tz(pendulum, z):
    # keep a strong reference: Timezone(name) re-reads the tz file when no instance is alive
    t = _TZ.get(z)
    if t is None:
        t = _TZ[z] = pendulum.timezone(z)
    return t


def _foreign_receivers(pendulum, z, x, x_f, x_o):
    """The state x carried by tzinfo objects that are not pendulum timezones (same fields, fold and offset):
    (kind, zone the result is expected in, receiver).  A zoneinfo object is mapped to the named zone; a stdlib
    fixed offset (with or without a name shared by other offsets) and a DST-aware tzinfo without a key can only be
    kept as the offset in force at the value."""
    from .. import foreign
    out = []
    if isinstance(z, int):
        out.append(("stdlib-timezone", z, pendulum.DateTime(*x_f, tzinfo=foreign.fixed(z))))
        out.append(("stdlib-named", z, pendulum.DateTime(*x_f, tzinfo=foreign.named_fixed(z))))
    else:
        out.append(("zoneinfo", z, pendulum.DateTime(*x_f, tzinfo=foreign.zi(z), fold=x.fold)))
        out.append(("stdlib-timezone", x_o, pendulum.DateTime(*x_f, tzinfo=foreign.fixed(x_o))))
        out.append(("stdlib-named", x_o, pendulum.DateTime(*x_f, tzinfo=foreign.named_fixed(x_o))))
        out.append(("keyless-dst-tzinfo", x_o, pendulum.DateTime(*x_f, tzinfo=foreign.keyless(z), fold=x.fold)))
    return [(n, fz, f) for n, fz, f in out if obs.offset_s(f) == x_o]


def check_case(acc, pendulum, zname, inst, kw, variants=True, foreign=None):
    """One state x one amount: add, inverse, and the operator spellings."""
    A = _total_us(kw)
    target = inst + A
    if not (_LO < target < _HI) or not (_LO < inst - A < _HI):
        acc.c["skipped_out_of_range"] += 1
        return
    z = zname
    if z is None:
        # naive: own clock
        f = seeds.fields_of_wall(inst)
        x = pendulum.DateTime(*f)
        exp_f = seeds.fields_of_wall(target)
        r = x.add(**kw)
        acc.c["evaluations"] += 1
        acc.c["transitions"] += 1
        if obs.fields(r) != exp_f or r.tzinfo is not None or type(r) is not pendulum.DateTime:
            acc.mismatch("add", "naive", {"kind": "c", "z": None, "inst": inst, "kw": kw},
                         [obs.fields(r), obs.tzkind(r)], [exp_f, "naive"])
        b = r.subtract(**kw)
        acc.c["evaluations"] += 1
        if obs.fields(b) != f:
            acc.mismatch("inverse", "naive", {"kind": "c", "z": None, "inst": inst, "kw": kw},
                         obs.fields(b), f)
        return
    tzobj = _tz(pendulum, z)
    x = obs.utc_dt(pendulum, inst).in_timezone(tzobj)
    x_f, x_o = obs.fields(x), obs.offset_s(x)
    ref_f, ref_o = obs.expected_render(z, inst)
    if (x_f, x_o) != (ref_f, ref_o):
        acc.c["seed_not_canonical"] += 1   # C01's business; do not double report
        return
    exp_f, exp_o = obs.expected_render(z, target)
    case = {"kind": "c", "z": z, "inst": inst, "kw": kw}
    td = dt_.timedelta(**kw)
    ops = [("add", lambda: x.add(**kw), target)]
    if variants:
        # the same call with every argument positional, in the documented order (years ... microseconds)
        pos = (0, 0, 0, 0, kw.get("hours", 0), kw.get("minutes", 0), kw.get("seconds", 0), kw.get("microseconds", 0))
        ops.append(("add-positional", lambda: x.add(*pos), target))
        ops.append(("subtract-positional", lambda: x.subtract(*(-v for v in pos)), target))
        ops.append(("plus_td", lambda: x + td, target))
        ops.append(("subtract_neg", lambda: x.subtract(**{k: -v for k, v in kw.items()}), target))
        ops.append(("minus_td", lambda: x - dt_.timedelta(**{k: -v for k, v in kw.items()}), target))
        ops.append(("td_plus", lambda: td + x, target))                         # reflected operand order
        # a plain timedelta of a user SUBCLASS (what pandas.Timedelta is): still an elapsed amount
        etd = _Elapsed(**kw)
        ops.append(("plus_td_subclass", lambda: x + etd, target))
        ops.append(("td_subclass_plus", lambda: etd + x, target))
        ops.append(("minus_td_subclass", lambda: x - _Elapsed(**{k: -v for k, v in kw.items()}), target))
        ops.append(("duration_plus", lambda: pendulum.duration(**kw) + x, target))
    first = None
    for name, fn, tgt in ops:
        r = fn()
        acc.c["evaluations"] += 1
        acc.c["transitions"] += 1
        got = (obs.fields(r), obs.offset_s(r), r.timezone_name, type(r).__name__)
        want = (exp_f, exp_o, x.timezone_name, "DateTime")
        if got != want:
            got_i = obs.instant_us(r)
            cls = "instant" if got_i != tgt else "rendering"
            acc.mismatch(name, cls, case, {"fields": got[0], "offset": got[1], "tz": got[2],
                                          "type": got[3], "instant_delta_us": got_i - inst},
                         {"fields": exp_f, "offset": exp_o, "tz": want[2], "type": "DateTime",
                          "instant_delta_us": A})
        if first is None:
            first = r
    if variants:
        # the same model state reached by another route: constructed, with the other raw fold flag
        # (inert on an unambiguous wall time) - the result must not depend on it
        y = pendulum.DateTime.create(*x_f, tz=tzobj, fold=1 - x.fold)
        if (obs.fields(y), obs.offset_s(y)) == (x_f, x_o):
            r = y.add(**kw)
            acc.c["evaluations"] += 1
            acc.c["transitions"] += 1
            got = (obs.fields(r), obs.offset_s(r))
            if got != (exp_f, exp_o):
                acc.mismatch("add", "constructed-receiver", dict(case, receiver_fold=1 - x.fold),
                             {"fields": got[0], "offset": got[1]}, {"fields": exp_f, "offset": exp_o})
    if variants:
        # a receiver object that has been USED before (calendar arithmetic, modifiers, conversions, formatting - every
        # one of them returns a new value): it still moves by exactly the amount
        u = obs.utc_dt(pendulum, inst).in_timezone(tzobj)
        for use in (lambda: u.add(days=1), lambda: u.add(months=1, weeks=2), lambda: u.subtract(years=1), lambda: u.start_of("day"),
                    lambda: u.end_of("month"), lambda: u.in_timezone("UTC"), lambda: u.format("LLLL Z"), lambda: hash(u), lambda: u.timestamp(),
                    lambda: u.diff(u), lambda: u.set(minute=1), lambda: u.day_of_year, lambda: u.isoformat()):
            try:
                use()
            except Exception:  # noqa: BLE001
                pass
        for name, fn in (("add", lambda: u.add(**kw)), ("plus_td", lambda: u + td), ("subtract_neg", lambda: u.subtract(**{k: -v for k, v in kw.items()}))):
            r = fn()
            acc.c["evaluations"] += 1
            acc.c["transitions"] += 1
            got = (obs.fields(r), obs.offset_s(r))
            if got != (exp_f, exp_o):
                acc.mismatch(name, "receiver-used-before", dict(case, receiver="used"), {"fields": got[0], "offset": got[1]},
                             {"fields": exp_f, "offset": exp_o})
    if variants if foreign is None else foreign:
        # receivers that carry a tzinfo which is not a pendulum timezone (raw constructor, fromisoformat(),
        # astimezone(<stdlib tzinfo>)): same instant, same zone - the timezone must be kept
        for fname, fz, fx in _foreign_receivers(pendulum, z, x, x_f, x_o):
            want = obs.expected_render(fz, target) + ("DateTime",)
            for name, fn in (("add", lambda: fx.add(**kw)), ("plus_td", lambda: fx + td)):
                r = fn()
                acc.c["evaluations"] += 1
                acc.c["transitions"] += 1
                got = (obs.fields(r), obs.offset_s(r), type(r).__name__)
                if got != want:
                    acc.mismatch(name, "foreign-tzinfo-receiver/" + fname, dict(case, receiver=fname),
                                 {"fields": got[0], "offset": got[1], "type": got[2]},
                                 {"fields": want[0], "offset": want[1], "type": "DateTime"})
    b = first.subtract(**kw)
    acc.c["evaluations"] += 1
    acc.c["transitions"] += 1
    if (obs.fields(b), obs.offset_s(b)) != (x_f, x_o):
        acc.mismatch("inverse", "subtract-after-add", case,
                     {"fields": obs.fields(b), "offset": obs.offset_s(b)},
                     {"fields": x_f, "offset": x_o})
    if variants:
        b2 = first - td
        acc.c["evaluations"] += 1
        if (obs.fields(b2), obs.offset_s(b2)) != (x_f, x_o):
            acc.mismatch("inverse", "minus-td-after-add", case,
                         {"fields": obs.fields(b2), "offset": obs.offset_s(b2)},
                         {"fields": x_f, "offset": x_o})


LONG_DELTAS = ((120000, 0, 1), (-120000, 0, -1), (200000, 5, 999999), (-150000, -7, -3), (104250, 86399, 999999), (3000000, 0, 1))


def check_long_timedelta(acc, pendulum, z, inst, dsu):
    """+ / - with a plain timedelta of several centuries that carries microseconds (beyond the float-exact range of seconds)."""
    import datetime as dt_
    td = dt_.timedelta(days=dsu[0], seconds=dsu[1], microseconds=dsu[2])
    A = (dsu[0] * 86400 + dsu[1]) * US + dsu[2]
    target = inst + A
    if not (_LO < target < _HI):
        acc.c["skipped_out_of_range"] += 1
        return
    if z is None:
        x = pendulum.DateTime(*seeds.fields_of_wall(inst))
        want = (seeds.fields_of_wall(target), None)
    else:
        x = obs.utc_dt(pendulum, inst).in_timezone(_tz(pendulum, z))
        want = obs.expected_render(z, target)
    case = {"kind": "ltd", "z": z, "inst": inst, "dsu": list(dsu)}
    for name, fn in (("dt+timedelta", lambda: x + td), ("timedelta+dt", lambda: td + x), ("dt-(-timedelta)", lambda: x - (-td))):
        acc.c["evaluations"] += 1
        acc.c["transitions"] += 1
        try:
            r = fn()
            got = (obs.fields(r), obs.offset_s(r) if r.tzinfo is not None else None)
        except Exception as e:  # noqa: BLE001
            got = f"raises {type(e).__name__}"
        if got != want:
            acc.mismatch("timedelta-operator", f"long/{name}", case, got, list(want))


def _naive_env_fresh(arg):
    """(fresh interpreter started with TZ=<zone>) a naive DateTime is shifted on its OWN clock - whatever the machine's zone
    does around that wall time: naive receivers on the wall times around the zone's latest transitions x the amount alphabet."""
    import pendulum
    acc = core.Acc(ID)
    trs = [tr for tr in seeds.zone_transitions(arg["zone"]) if 0 < tr[0] < 2000000000][-4:]
    amounts = _amounts(False)
    for t, ob, oa in trs:
        for w in seeds.wall_probes(t, ob, oa) + [(t + ob - 3600) * US, (t + oa + 5400) * US + 1]:
            acc.c["states"] += 1
            acc.c["nontrivial"] += 1
            for i, kw in enumerate(amounts):
                if i % 2 == (w // US) % 2:
                    check_case(acc, pendulum, None, w, kw, variants=True)
    r = acc.result()
    for v in r["viol"].values():       # a replay needs the process environment of this exploration
        for cse in v["cases"]:
            if isinstance(cse.get("case"), dict):
                cse["case"] = dict(cse["case"], kind="nenv", TZ=arg["zone"])
    return r


def _replay_nenv(case):
    import pendulum
    acc = core.Acc(ID)
    check_case(acc, pendulum, None, case["inst"], case["kw"], variants=True)
    return acc.result()


def run_shard(shard):
    import pendulum
    acc = core.Acc(ID)
    if shard.get("kind") == "naive-env":
        for zone in ("Europe/Paris", "America/Sao_Paulo"):
            acc.absorb(worker.fresh_call("c03", "_naive_env_fresh", {"zone": zone}, {"TZ": zone}))
        acc.sample({"naive_receivers_with_machine_zone_from_TZ": ["Europe/Paris", "America/Sao_Paulo"]})
        return acc.result()
    amounts = _amounts(shard.get("full_alphabet", False))
    if shard.get("kind") == "chains":
        from .. import chain
        for sd in shard["seeds"]:
            with worker.guarded(acc, "chain", {"kind": "chain", "z": sd["z"], "inst": sd["inst"], "zones": sd["zones"]}, 300):
                chain.explore(acc, pendulum, sd["z"], sd["inst"], sd["zones"], shard["depth"], {'fixed'})
            acc.c["nontrivial"] += 1
        acc.sample({"chain_seed": [shard["seeds"][0]["z"], obs.iso(shard["seeds"][0]["inst"])], "depth": shard["depth"],
                    "zones": [str(z) for z in shard["seeds"][0]["zones"]],
                    "ops": "in_timezone x zones, add/subtract hours/minutes/seconds, +/- timedelta, add days/weeks/months"})
        return acc.result()
    seen_states = set()
    for z in shard["zones"]:
        if shard.get("edges"):
            insts = seeds.calendar_edge_instants()
            crossing = False
        elif z is None or isinstance(z, int):
            insts = seeds.grid_instants(211)[:12] + [0, -1, 86399999999, 951782399999999]
            crossing = False
        else:
            trs = seeds.zone_transitions(z)
            if shard["limit"]:
                trs = seeds.pick_transitions(trs, shard["limit"], shard["seed"])
            insts = []
            for t, ob, oa in trs:
                insts += seeds.probe_instants(t, ob, oa, full=shard["thorough"])
            insts += seeds.grid_instants(370 if not shard["thorough"] else 37)
            crossing = True
        if shard.get("edges"):
            for inst in insts[::3]:
                for dsu in LONG_DELTAS:
                    with worker.guarded(acc, "add", {"kind": "ltd", "z": z, "inst": inst, "dsu": list(dsu)}):
                        check_long_timedelta(acc, pendulum, z, inst, dsu)
        for inst in insts:
            seen_states.add((z, inst))
            if crossing:
                acc.c["nontrivial"] += 1
            for i, kw in enumerate(amounts):
                with worker.guarded(acc, "add", {"kind": "c", "z": z, "inst": inst, "kw": kw}):
                    check_case(acc, pendulum, z, inst, kw, variants=(shard["thorough"] or i % 3 == inst % 3),
                               foreign=(shard["thorough"] or i % 9 == inst % 9))
        if z is not None and not isinstance(z, int) and insts:
            acc.sample({"zone": z, "instant": obs.iso(insts[0]), "amount": amounts[3]})
    acc.c["states"] += len(seen_states)
    return acc.result()


def replay_case(case, acc):
    import pendulum
    if case.get("kind") == "chain":
        from .. import chain
        chain.replay(acc, pendulum, case, {'fixed'})
        return
    if case.get("kind") == "nenv":
        if worker.CTX["config"].get("TZ") != case["TZ"]:
            acc.absorb(worker.fresh_call("c03", "_replay_nenv", case, {"TZ": case["TZ"]}))
        else:
            check_case(acc, pendulum, None, case["inst"], case["kw"], variants=True)
        return
    if case.get("kind") == "ltd":
        check_long_timedelta(acc, pendulum, case["z"], case["inst"], tuple(case["dsu"]))
        return
    with worker.guarded(acc, "add", case):
        check_case(acc, pendulum, case["z"], case["inst"], case["kw"], variants=True)


def plan(tier, seed):
    thorough = tier == "thorough"
    # fixed offsets include ones that are not whole minutes (what an LMT-style datetime.timezone converts to)
    zones = list(seeds.all_zones()) + list(seeds.WITNESS_FIXED) + list(seeds.SUBMINUTE_FIXED) + [None]
    shards = [{"zones": ch, "thorough": thorough, "limit": 0 if thorough else 10, "seed": seed}
              for ch in seeds.chunks(zones, 64 if not thorough else 256)]
    if thorough:
        # the full product alphabet (hours x minutes x seconds x microseconds) on the witness zones
        shards += [{"zones": [z], "thorough": True, "full_alphabet": True, "limit": 12, "seed": seed}
                   for z in seeds.witness_zones(seed, 2)]
    from .. import chain
    cs = chain.chain_seeds(seed, 3 if not thorough else 8)
    shards += [{"kind": "chains", "seeds": ch, "depth": 3} for ch in seeds.chunks(cs, 32)]
    # calendar-edge receivers (29 February of every kind of leap year, year ends ...): add() goes through the
    # month-length clamp of add_duration even for fixed-length amounts
    ez = ["UTC", None, 19800, "America/New_York", "Europe/Paris", "Pacific/Apia"]
    edges = [{"zones": [z], "thorough": thorough, "limit": 1, "seed": seed, "edges": True} for z in ez]
    shards = edges + shards + [{"kind": "naive-env"}]
    plans = [({"ext": 1, "tz": "sys"}, shards)]
    if thorough:
        plans.append(({"ext": 0, "tz": "pkg"}, shards))
    else:
        # the pure-Python helpers (is_leap, days_in_year ...) behind the same arithmetic
        plans.append(({"ext": 0, "tz": "sys"}, edges + shards[len(edges):len(edges) + 2]))
    return plans


def evidence(m, tier, seed):
    c = m.c
    return {"coverage": {
        "evaluations": c["evaluations"], "states": c["states"], "transitions": c["transitions"],
        "traces_validated_against_impl": c["transitions"],
        "distinct_nontrivial": c["nontrivial"],
        "rule": "state = (zone, instant) with instants at P(t) around offset transitions taken from the tz data "
                "(quick: 10 transitions per zone rotated by VERIF_SEED, thorough: all) plus a year grid, 5 fixed "
                "offsets and naive values, and calendar-edge instants (28/29 February, 1 March, year ends of 11 kinds of year) in 6 zones under both helper back ends; every state x every amount of the carry-critical alphabet; non-trivial "
                "= states adjacent to an offset transition",
        "exhaustive": True,
        "amount_alphabet_size": len(_amounts(False)),
        "full_product_alphabet_size_on_witness_zones": len(_amounts(True)) if tier == "thorough" else 0,
        "skipped_out_of_range": c["skipped_out_of_range"],
        "seed_not_canonical": c["seed_not_canonical"],
    }, "assumptions": ["reference TZif reader (validated against zoneinfo by ./check setup)"]}
