"""C07 - ISO 8601 / RFC 3339 date and time strings parse to the value they denote.

Seeds      : every date of a year set (thorough: every date 1583-01-01..9999-12-31) rendered in calendar / ordinal /
             week x basic / extended form (+ reduced forms); times x fractions of 1..9 digits after '.' or ',' x all
             2 879 offsets -23:59..+23:59 in the forms +hh:mm, +hhmm, +hh and Z x separators T and space; time-only
             strings; impossible dates / ordinals / weeks / times; DateTimes in UTC and every fixed offset for the
             round trips of isoformat(), str(), to_iso8601_string(), to_rfc3339_string(), to_atom_string(),
             to_w3c_string().
Operations : parse_iso8601 of the compiled and of the pure-Python parser (function level, same process) and
             pendulum.parse with exact in {False, True} and the tz option, under both back ends.
Oracle     : constructive - the value the string was rendered from (type, fields, microseconds truncated, offset).
"""
from __future__ import annotations

import datetime as dt_

from .. import worker
from .. import core, obs, seeds
from ..ref import calref, isoref

ID = "C07"
NOW = dt_.datetime(2016, 5, 4, 3, 2, 1)


def _mods():
    import pendulum
    from pendulum.parsing import iso8601 as pyp
    from ..worker import CTX
    fns = {"py": pyp.parse_iso8601}
    if CTX["config"].get("ext", 1):
        import pendulum._pendulum as rs
        fns["rs"] = rs.parse_iso8601
    return pendulum, fns


def nat_obs(x):
    if isinstance(x, dt_.datetime):
        return ("datetime", obs.fields(x), obs.offset_s(x))
    if isinstance(x, dt_.date):
        return ("date", (x.year, x.month, x.day))
    if isinstance(x, dt_.time):
        o = x.utcoffset()
        return ("time", (x.hour, x.minute, x.second, x.microsecond), None if o is None else int(o.total_seconds()))
    return (type(x).__name__, repr(x))


def outcome(fn, *a, **k):
    try:
        return nat_obs(fn(*a, **k))
    except ValueError:
        return ("ValueError",)
    except Exception as e:  # noqa: BLE001
        return (type(e).__name__, str(e)[:80])


def kf_time_only_offset(s_kind, got, want):
    """C07-time-only-offset-dropped: parse() of a time-only string with an offset designator returns the right
    time of day but no offset (pendulum.time()/the non-exact DateTime are built without the parsed tzinfo)."""
    if s_kind != "time-only-offset":
        return False
    if want[0] == "time":
        return got == ("time", want[1], None)
    if want[0] == "datetime":
        return got[0] == "datetime" and got[1] == want[1] and got[2] == 0
    return False


def check_string(acc, mods, s, exp_fn, kind, want_parse=True):
    """exp_fn: expected native observation of parse_iso8601(s) or ('ValueError',).
    kind: short class label (form).  Also checks pendulum.parse (non exact / exact / tz option)."""
    pendulum, fns = mods
    case = {"kind": "s", "s": s, "exp": core.jsonable(exp_fn), "form": kind}
    with worker.guarded(acc, "parse", case):
        _check_string(acc, mods, s, exp_fn, kind, want_parse, case)


def _check_string(acc, mods, s, exp_fn, kind, want_parse, case):
    pendulum, fns = mods
    for name, fn in fns.items():
        got = outcome(fn, s)
        acc.c["evaluations"] += 1
        acc.c["transitions"] += 1
        if got != tuple(exp_fn):
            acc.mismatch(f"parse_iso8601.{name}", kind, case, got, exp_fn)
    if not want_parse:
        return
    # pendulum.parse under the process's back end
    if exp_fn == ("ValueError",):
        for opts in ({}, {"exact": True}):
            got = outcome(pendulum.parse, s, **opts)
            acc.c["evaluations"] += 1
            if got != ("ValueError",):
                acc.mismatch("parse", f"{kind}/must-reject", case, got, ("ValueError",))
        return
    t = exp_fn[0]
    tzopt = pendulum.timezone(19800)
    if t == "date":
        y, m, d = exp_fn[1]
        wants = [({}, ("datetime", (y, m, d, 0, 0, 0, 0), 0)), ({"exact": True}, ("date", (y, m, d))),
                 ({"tz": tzopt}, ("datetime", (y, m, d, 0, 0, 0, 0), 19800))]
    elif t == "datetime":
        f, off = exp_fn[1], exp_fn[2]
        wants = [({}, ("datetime", f, off if off is not None else 0)),
                 ({"exact": True}, ("datetime", f, off if off is not None else 0)),
                 ({"tz": tzopt}, ("datetime", f, off if off is not None else 19800))]
    else:
        tt, off = exp_fn[1], exp_fn[2]
        nowf = (NOW.year, NOW.month, NOW.day)
        wants = [({"now": NOW}, ("datetime", nowf + tt, off if off is not None else 0)),
                 ({"exact": True}, ("time", tt, off))]
    for opts, want in wants:
        got = outcome(pendulum.parse, s, **opts)
        acc.c["evaluations"] += 1
        acc.c["transitions"] += 1
        if got != want:
            sk = "time-only-offset" if (t == "time" and exp_fn[2] is not None) else kind
            kf = "C07-time-only-offset-dropped" if kf_time_only_offset(sk, got, want) else None
            acc.mismatch("parse", f"{kind}/{'+'.join(sorted(k for k in opts if k != 'now')) or 'default'}",
                         dict(case, opts=sorted(opts)), got, want, kf=kf)


# ------------------------------------------------------------------------------------------ seeds

FRACS = ["1", "9", "01", "99", "001", "123", "0001", "1234", "00001", "12345", "000001", "123456", "999999",
         "0000001", "1234567", "9999999", "00000001", "12345678", "000000001", "123456789", "999999999", "5"]
TIMES = [(h, mi, s) for h in (0, 12, 23) for mi in (0, 30, 59) for s in (0, 59)]


def date_strings(y, m, d, reduced=False):
    out = [(isoref.render_date(y, m, d, f), f) for f in isoref.DATE_FORMS]
    if reduced:
        iy, iw, wd = calref.iso_calendar(y, m, d)
        if wd == 1:
            out.append((f"{iy:04d}-W{iw:02d}", "week-ext-noday"))
            out.append((f"{iy:04d}W{iw:02d}", "week-bas-noday"))
        if d == 1:
            out.append((f"{y:04d}-{m:02d}", "cal-ext-month"))
    return out


def check_date(acc, mods, y, m, d, reduced, want_parse):
    for s, form in date_strings(y, m, d, reduced):
        check_string(acc, mods, s, ("date", (y, m, d)), form, want_parse)


def combined(acc, mods, y, m, d, h, mi, s, frac, off, offform, sep, ext, dform, want_parse=True):
    ds = isoref.render_date(y, m, d, dform)
    ts = isoref.render_time(h, mi, s, frac, ext)
    os_ = isoref.render_offset(off, offform)
    us = isoref.frac_us(frac[1]) if frac else 0
    off_s = None if off is None else 0 if off == "Z" else off * 60
    check_string(acc, mods, ds + sep + ts + os_, ("datetime", (y, m, d, h, mi, s, us), off_s),
                 f"dt/{dform}/{'frac' if frac else 'nofrac'}/{'Z' if off == 'Z' else 'nooff' if off is None else offform}",
                 want_parse)


RANGE_ENDS = [
    ("0001-01-01T00:00:00+01:00", (1, 1, 1, 0, 0, 0, 0), 3600), ("0001-01-01T05:29:59.5+05:30", (1, 1, 1, 5, 29, 59, 500000), 19800),
    ("00010101T000000+0100", (1, 1, 1, 0, 0, 0, 0), 3600), ("0001-001T00:30:00+14:00", (1, 1, 1, 0, 30, 0, 0), 50400),
    ("0001-W01-1T00:00:00+00:01", (1, 1, 1, 0, 0, 0, 0), 60),
    ("9999-12-31T23:59:59-05:00", (9999, 12, 31, 23, 59, 59, 0), -18000), ("9999-12-31T23:59:59.999999-00:01", (9999, 12, 31, 23, 59, 59, 999999), -60),
    ("9999-365T23:59:59-08", (9999, 12, 31, 23, 59, 59, 0), -28800), ("9999-W52-5T20:00:00-04:00", (9999, 12, 31, 20, 0, 0, 0), -14400),
    ("99991231T120000-1200", (9999, 12, 31, 12, 0, 0, 0), -43200),
]
IMPOSSIBLE = [
    "2021-00-10", "2021-13-10", "2021-01-00", "2021-01-32", "2021-02-30", "2021-02-29", "2021-04-31", "1900-02-29",
    "20210010", "20211310", "20210100", "20210132", "20210230", "20210229", "20210431", "19000229",
    "2021-000", "2021-366", "2021-367", "2020-367", "2021000", "2021366", "2020367", "2021-999",
    "2021-W00-1", "2021-W54-1", "2021-W53-1", "2021-W01-0", "2021-W01-8", "2021-W01-9", "2020-W54-1", "2021-W00",
    "2021W001", "2021W541", "2021W531", "2021W010", "2021W018", "2021W54",
    "2021-01-01T24:00:01", "2021-01-01T25:00:00", "2021-01-01T12:60:00", "2021-01-01T12:00:60", "2021-01-01T12:00:61",
    "20210101T250000", "20210101T126000", "20210101T120060", "T25:00:00", "T250000", "25:00:00", "12:60:00", "12:00:60",
]


def run_shard(shard):
    mods = _mods()
    pendulum, fns = mods
    acc = core.Acc(ID)
    k = shard["kind"]
    if k == "dates":
        wp = shard["parse"]
        for n in range(shard["n0"], shard["n1"]):
            y, m, d = calref.civil_from_days(n)
            acc.c["states"] += 1
            dim = calref.days_in_month(y, m)
            if d == dim or d == 1:
                acc.c["nontrivial"] += 1
            check_date(acc, mods, y, m, d, True, wp or d in (1, dim) or n % 7 == 0)
        acc.sample({"date": list(calref.civil_from_days(shard["n0"])),
                    "strings": [s for s, _ in date_strings(*calref.civil_from_days(shard["n0"]), True)]})
    elif k == "times":
        y, m, d = shard["date"]
        for (h, mi, s) in shard["times"]:
            acc.c["states"] += 1
            for frac in [None] + [(sep, f) for f in FRACS for sep in ".,"]:
                for off, form in ((None, "colon"), ("Z", "colon"), (330, "colon"), (-210, "nocolon")):
                    for sep in ("T", " "):
                        for ext, dform in ((True, "cal-ext"), (False, "cal-bas")):
                            combined(acc, mods, y, m, d, h, mi, s, frac, off, form, sep, ext, dform)
                acc.c["nontrivial"] += 1
            # week / ordinal dates combined with a time, reduced precision times
            for dform, ext in (("week-ext", True), ("ord-ext", True), ("week-bas", False), ("ord-bas", False)):
                combined(acc, mods, y, m, d, h, mi, s, (".", "25"), 60, "colon", "T", ext, dform)
            ds = isoref.render_date(y, m, d, "cal-ext")
            db = isoref.render_date(y, m, d, "cal-bas")
            check_string(acc, mods, f"{ds}T{h:02d}:{mi:02d}", ("datetime", (y, m, d, h, mi, 0, 0), None), "dt/ext/hh:mm")
            check_string(acc, mods, f"{ds}T{h:02d}", ("datetime", (y, m, d, h, 0, 0, 0), None), "dt/ext/hh")
            check_string(acc, mods, f"{db}T{h:02d}{mi:02d}", ("datetime", (y, m, d, h, mi, 0, 0), None), "dt/bas/hhmm")
            check_string(acc, mods, f"{db}T{h:02d}", ("datetime", (y, m, d, h, 0, 0, 0), None), "dt/bas/hh")
            check_string(acc, mods, f"{ds}T{h:02d}:{mi:02d}Z", ("datetime", (y, m, d, h, mi, 0, 0), 0), "dt/ext/hh:mmZ")
            check_string(acc, mods, f"{ds}T{h:02d}+01", ("datetime", (y, m, d, h, 0, 0, 0), 3600), "dt/ext/hh+hh")
            # time-only
            for frac in (None, (".", "5"), (",", "123456789")):
                us = isoref.frac_us(frac[1]) if frac else 0
                te = isoref.render_time(h, mi, s, frac, True)
                tb = isoref.render_time(h, mi, s, frac, False)
                check_string(acc, mods, te, ("time", (h, mi, s, us), None), "time/ext")
                check_string(acc, mods, "T" + te, ("time", (h, mi, s, us), None), "time/T-ext")
                check_string(acc, mods, "T" + tb, ("time", (h, mi, s, us), None), "time/T-bas")
                check_string(acc, mods, te + "+01:00", ("time", (h, mi, s, us), 3600), "time/ext+off")
                check_string(acc, mods, te + "Z", ("time", (h, mi, s, us), 0), "time/extZ")
            check_string(acc, mods, f"{h:02d}:{mi:02d}", ("time", (h, mi, 0, 0), None), "time/hh:mm")
            check_string(acc, mods, f"T{h:02d}{mi:02d}", ("time", (h, mi, 0, 0), None), "time/Thhmm")
            check_string(acc, mods, f"T{h:02d}", ("time", (h, 0, 0, 0), None), "time/Thh")
        acc.sample({"combined": isoref.render_date(y, m, d, "cal-ext") + "T23:59:59,123456789+05:30"})
    elif k == "offsets":
        y, m, d = shard["date"]
        for off in range(shard["o0"], shard["o1"]):
            acc.c["states"] += 1
            for form in ("colon", "nocolon") + (("hour",) if off % 60 == 0 else ()):
                for ext, dform in ((True, "cal-ext"), (False, "cal-bas")):
                    for frac in (None, (".", "123456789")):
                        combined(acc, mods, y, m, d, 12, 4, 23, frac, off, form, "T", ext, dform,
                                 want_parse=(off % 7 == 0 or abs(off) < 90 or abs(off) > 1400))
            if -60 < off < 0:
                acc.c["nontrivial"] += 1
        acc.sample({"offset_minutes": shard["o0"], "forms": ["+hh:mm", "+hhmm", "+hh"]})
    elif k == "impossible":
        # well-formed strings whose UTC instant lies outside years 1..9999 while the denoted local value is inside
        for s_, f_, off_ in RANGE_ENDS:
            acc.c["states"] += 1
            check_string(acc, mods, s_, ("datetime", f_, off_), "range-end-offset")
        for s in IMPOSSIBLE:
            acc.c["states"] += 1
            acc.c["nontrivial"] += 1
            check_string(acc, mods, s, ("ValueError",), "impossible")
        acc.sample({"impossible": IMPOSSIBLE[:6]})
    elif k == "fractions":
        # EVERY fraction of the given width: the microsecond is the digits themselves (truncated beyond 6)
        w = shard["width"]
        for kf in range(shard["k0"], shard["k1"], shard.get("step", 1)):
            digits = f"{kf:0{w}d}"
            us = int(digits[:6].ljust(6, "0"))
            acc.c["states"] += 1
            for s, want in ((f"12:34:56.{digits}", ("time", (12, 34, 56, us), None)),
                            (f"2016-10-06T12:34:56,{digits}+01:00", ("datetime", (2016, 10, 6, 12, 34, 56, us), 3600))):
                if s[0] == "2" and kf % 7:
                    continue
                for name, fn in fns.items():
                    got = outcome(fn, s)
                    acc.c["evaluations"] += 1
                    acc.c["transitions"] += 1
                    if got != want:
                        acc.mismatch(f"parse_iso8601.{name}", f"fraction-width-{w}", {"kind": "s", "s": s, "exp": core.jsonable(want), "form": f"fraction-width-{w}"},
                                     got, want)
        acc.c["nontrivial"] += 1
        acc.sample({"all_fractions_of_width": w, "from": shard["k0"], "to": shard["k1"]})
    elif k == "roundtrip":
        for off in range(shard["o0"], shard["o1"]):
            tz = pendulum.UTC if off == "UTC" else pendulum.timezone(off * 60)
            for f in shard["values"]:
                x = pendulum.DateTime(*f, tzinfo=tz)
                acc.c["states"] += 1
                fx, ox = obs.fields(x), obs.offset_s(x)
                for name, fn, prec in (("isoformat", lambda: x.isoformat(), "us"), ("str", lambda: str(x), "us"),
                                       ("to_iso8601_string", x.to_iso8601_string, "us"),
                                       ("to_rfc3339_string", x.to_rfc3339_string, "us"),
                                       ("to_atom_string", x.to_atom_string, "s"), ("to_w3c_string", x.to_w3c_string, "s")):
                    text = fn()
                    want = ("datetime", fx if prec == "us" else fx[:6] + (0,), ox)
                    case = {"kind": "rt", "f": list(f), "off": off, "via": name, "text": text}
                    got = outcome(pendulum.parse, text)
                    acc.c["evaluations"] += 1
                    acc.c["transitions"] += 2
                    if got != want:
                        acc.mismatch("roundtrip", name, case, got, want)
        acc.sample({"roundtrip_offset_minutes": shard["o0"], "via": ["isoformat", "str", "to_iso8601_string",
                                                                     "to_rfc3339_string", "to_atom_string", "to_w3c_string"]})
    return acc.result()


def replay_case(case, acc):
    mods = _mods()
    pendulum, fns = mods
    if case["kind"] == "s":
        exp = case["exp"]
        exp = tuple(tuple(e) if isinstance(e, list) else e for e in exp)
        check_string(acc, mods, case["s"], exp, case["form"])
    else:
        off = case["off"]
        tz = pendulum.UTC if off == "UTC" else pendulum.timezone(off * 60)
        x = pendulum.DateTime(*case["f"], tzinfo=tz)
        fn = {"isoformat": x.isoformat, "str": lambda: str(x), "to_iso8601_string": x.to_iso8601_string,
              "to_rfc3339_string": x.to_rfc3339_string, "to_atom_string": x.to_atom_string,
              "to_w3c_string": x.to_w3c_string}[case["via"]]
        text = fn()
        prec = "s" if case["via"] in ("to_atom_string", "to_w3c_string") else "us"
        fx = obs.fields(x)
        want = ("datetime", fx if prec == "us" else fx[:6] + (0,), obs.offset_s(x))
        got = outcome(pendulum.parse, text)
        if got != want:
            acc.mismatch("roundtrip", case["via"], case, got, want)


RT_VALUES = [(2016, 10, 6, 12, 34, 56, 123456), (2000, 2, 29, 0, 0, 0, 0), (1999, 12, 31, 23, 59, 59, 999999),
             (1000, 1, 1, 0, 0, 0, 1), (9999, 12, 30, 12, 0, 0, 500000)]


def plan(tier, seed):
    thorough = tier == "thorough"
    d = calref.days_from_civil
    shards = []
    if thorough:
        n0, n1 = d(1583, 1, 1), d(9999, 12, 31) + 1
        for s in range(n0, n1, 20000):
            shards.append({"kind": "dates", "n0": s, "n1": min(n1, s + 20000), "parse": False})
    years = [1, 4, 999, 1000, 1583, 1600, 1700, 1800, 2100, 2400, 9999] + list(range(1896, 1906)) + list(range(1992, 2045))
    years += [1583 + (seed * 97 + i * 411) % 8400 for i in range(3)]
    for y in sorted(set(years)):
        for q in range(4):
            shards.append({"kind": "dates", "n0": d(y, 3 * q + 1, 1),
                           "n1": d(y, 3 * q + 3, calref.days_in_month(y, 3 * q + 3)) + 1, "parse": True})
    for date in ((2016, 10, 6), (2020, 2, 29), (1999, 12, 31), (2015, 12, 28 + seed % 4)):
        for i in range(0, len(TIMES), 2):
            shards.append({"kind": "times", "date": date, "times": TIMES[i:i + 2]})
    for o0 in range(-1439, 1440, 90):
        shards.append({"kind": "offsets", "date": (2016, 10, 6), "o0": o0, "o1": min(1440, o0 + 90)})
    shards.append({"kind": "impossible"})
    # every 4-, 5- and 6-digit fraction (thorough: + every 997th 9-digit one)
    shards.append({"kind": "fractions", "width": 4, "k0": 0, "k1": 10 ** 4})
    shards.append({"kind": "fractions", "width": 5, "k0": 0, "k1": 10 ** 5})
    for k0 in range(0, 10 ** 6, 62500):
        shards.append({"kind": "fractions", "width": 6, "k0": k0, "k1": k0 + 62500, "step": 1})
    if thorough:
        for k0 in range(0, 10 ** 9, 62500000):
            shards.append({"kind": "fractions", "width": 9, "k0": k0, "k1": k0 + 62500000, "step": 997})
    for o0 in range(-1439, 1440, 180):
        shards.append({"kind": "roundtrip", "o0": o0, "o1": min(1440, o0 + 180), "values": RT_VALUES})
    return [({"ext": 1, "tz": "sys"}, shards), ({"ext": 0, "tz": "sys"}, shards)]


def evidence(m, tier, seed):
    c = m.c
    return {"coverage": {
        "evaluations": c["evaluations"], "states": c["states"], "transitions": c["transitions"],
        "traces_validated_against_impl": c["transitions"],
        "distinct_nontrivial": c["nontrivial"],
        "rule": "every fraction of 4, 5 and 6 digits (1 110 000 strings) on a time-only and a date-time string under both parsers; state = value rendered into strings: every day of 77 years (incl. 1, 4, 999, 1000) (3 rotated by VERIF_SEED; thorough: every "
                "date 1583..9999 at function level) x {calendar, ordinal, week} x {basic, extended} (+ week-without-day, "
                "YYYY-MM); 18 times x 45 fraction/separator shapes x {none, Z, +05:30, -0330} x {T, space} x "
                "{extended, basic} on 4 dates; all 2 879 minute offsets x {+hh:mm, +hhmm, +hh}; time-only forms; 51 "
                "impossible strings; round trips of 6 renderers for 5 values x (UTC + all 2 879 fixed offsets); both "
                "parsers at function level and parse() with default/exact/tz options under both back ends; "
                "non-trivial = month-edge dates, fraction shapes, sub-hour negative offsets, impossible strings",
        "exhaustive": True,
    }, "assumptions": ["ISO 8601 well-formedness as stated in DESIGN.md section 3 C07 (mixed basic/extended and bare "
                       "2/4/6-digit strings are outside the must-parse grammar)"]}
