"""Worker bootstrap: pin every environment seam, then import pendulum from the tree under test.

A configuration is a dict
    ext : 1 -> compiled helpers (the freshly built .so, injected), 0 -> pure Python
    tz  : 'sys' -> PYTHONTZPATH=/usr/share/zoneinfo, 'pkg' -> empty TZPATH (tzdata wheel)
"""
from __future__ import annotations

import importlib
import importlib.machinery
import importlib.util
import os
import signal
import sys

SYS_TZPATH = "/usr/share/zoneinfo"
CTX: dict = {}
SHARD_WATCHDOG = 3000.0


class Hang(BaseException):
    """Raised by the horizon timer (BaseException so library `except Exception` cannot eat it)."""


def _alarm(signum, frame):
    raise Hang()


def horizon(seconds: float = 2.0):
    """Arm the per-operation horizon.

    Short horizons count the process's own CPU time (ITIMER_PROF): a non-terminating loop burns CPU, while a
    process that is merely descheduled on a loaded machine does not - a wall-clock horizon raised spurious HANG
    outcomes when several checks ran at once.  Long values (>= 100 s) re-arm the wall-clock shard watchdog."""
    if seconds >= 100:
        signal.setitimer(signal.ITIMER_PROF, 0)
        signal.setitimer(signal.ITIMER_REAL, seconds)
    else:
        signal.setitimer(signal.ITIMER_PROF, seconds)


def horizon_off():
    signal.setitimer(signal.ITIMER_PROF, 0)
    signal.setitimer(signal.ITIMER_REAL, 0)


def init(repo: str, so_path: str | None, config: dict) -> None:
    """Executed once per worker process, before anything imports pendulum."""
    assert "pendulum" not in sys.modules, "pendulum imported before the seams were pinned"
    os.environ["PENDULUM_EXTENSIONS"] = "1" if config.get("ext", 1) else "0"
    os.environ["TZ"] = config.get("TZ", "UTC")      # the machine's zone is a seam too: UTC unless a shard asks otherwise
    import time as _time
    _time.tzset()
    tzp = SYS_TZPATH if config.get("tz", "sys") == "sys" else ""
    os.environ["PYTHONTZPATH"] = tzp
    import zoneinfo
    zoneinfo.reset_tzpath(to=[tzp] if tzp else [])
    zoneinfo.ZoneInfo.clear_cache()
    src = os.path.join(repo, "src")
    sys.path[:] = [p for p in sys.path if os.path.realpath(p or ".") != os.path.realpath("/repo/src")]
    sys.path.insert(0, src)
    if config.get("ext", 1):
        assert so_path, "extension requested but not built"
        loader = importlib.machinery.ExtensionFileLoader("pendulum._pendulum", so_path)
        spec = importlib.util.spec_from_file_location("pendulum._pendulum", so_path, loader=loader)
        mod = importlib.util.module_from_spec(spec)
        loader.exec_module(mod)
        sys.modules["pendulum._pendulum"] = mod
    covdir = os.environ.get("PENDMC_COVERAGE")
    if covdir:          # diagnostic only (selftest/coverage_report.py): which lines of pendulum do the checks execute
        import coverage
        cov = coverage.Coverage(data_file=None, include=[os.path.join(src, "pendulum", "*")])
        cov.start()
        CTX["cov"] = (cov, covdir)
    import pendulum
    import pendulum.helpers
    import pendulum.parsing
    assert os.path.realpath(pendulum.__file__).startswith(os.path.realpath(src)), pendulum.__file__
    backend = pendulum.helpers.precise_diff.__module__
    if config.get("ext", 1):
        assert sys.modules["pendulum._pendulum"] is mod
        assert "_helpers" not in backend, f"compiled backend not selected ({backend})"
        assert pendulum.parsing.parse_iso8601.__module__ != "pendulum.parsing.iso8601"
    else:
        assert backend == "pendulum._helpers", backend
        assert pendulum.parsing.parse_iso8601.__module__ == "pendulum.parsing.iso8601"
    amb = config.get("ambient") or {}
    if "ws" in amb:        # process-wide settings no property's results may depend on (unless it says so)
        pendulum.week_starts_at(pendulum.WeekDay(amb["ws"]))
        pendulum.week_ends_at(pendulum.WeekDay((amb["ws"] + 6) % 7))
        import calendar as _calendar
        _calendar.setfirstweekday(amb["ws"])          # the stdlib's own process-wide first weekday
    if "locale" in amb:
        pendulum.set_locale(amb["locale"])
    signal.signal(signal.SIGALRM, _alarm)
    signal.signal(signal.SIGPROF, _alarm)
    # reference-side caches filled in the parent (plan() reads transition lists) belong to the parent's tz path:
    # a worker pinned to the other database must read its own files
    from .ref import tzref
    from . import seeds, obs
    tzref.zone.cache_clear()
    for mod_ in (seeds, obs):
        for v in vars(mod_).values():
            if hasattr(v, "cache_clear"):
                v.cache_clear()
    keep = CTX.get("cov")
    CTX.clear()
    CTX.update(repo=repo, so=so_path, config=dict(config), tzpath=tzp)
    if keep:
        CTX["cov"] = keep


def fresh_call(modname: str, fn: str, arg, extra_config: dict, timeout: float = 600.0):
    """Run pendmc.props.<modname>.<fn>(arg) in a NEW interpreter whose configuration is the current one plus
    `extra_config` (e.g. {'TZ': 'Europe/Paris'}: settings the library reads once per process, such as the machine's
    zone from the environment).  Returns the function's JSON-able result."""
    import json
    import subprocess
    cfg = dict(CTX["config"], **extra_config)
    verif = os.path.dirname(os.path.dirname(os.path.abspath(__file__)))
    code = ("import sys, json; sys.path.insert(0, %r); from pendmc import worker; "
            "worker.init(%r, %r, json.loads(%r)); import importlib; "
            "m = importlib.import_module('pendmc.props.' + %r); "
            "r = getattr(m, %r)(json.loads(sys.stdin.read())); sys.stdout.write('\\n@@RESULT@@' + json.dumps(r))"
            % (verif, CTX["repo"], CTX["so"], json.dumps(cfg), modname, fn))
    env = dict(os.environ, PYTHONHASHSEED="0")
    p = subprocess.run([sys.executable, "-c", code], input=json.dumps(arg), capture_output=True, text=True, timeout=timeout, env=env)
    if p.returncode != 0 or "@@RESULT@@" not in p.stdout:
        raise RuntimeError(f"fresh process failed ({p.returncode}): {p.stderr[-800:]}")
    return json.loads(p.stdout.split("@@RESULT@@", 1)[1])


def is_control(exc: BaseException) -> bool:
    """Exceptions that belong to the harness or the interpreter, never to the code under test."""
    return isinstance(exc, (Hang, KeyboardInterrupt, SystemExit, GeneratorExit))


class guarded:
    """`with guarded(acc, sub, case, seconds):` - run the operations of one state under a CPU-time horizon.

    Expiry is recorded as the outcome HANG for that case (a violation of any property that promises a result)
    and exploration continues with the next state.  Exceptions that are not `Exception`s (a Rust panic surfaces
    as pyo3's PanicException, a BaseException) are recorded as the outcome of the case as well instead of
    killing the worker."""

    def __init__(self, acc, sub, case, seconds=10.0):
        self.acc, self.sub, self.case, self.seconds = acc, sub, case, seconds

    def __enter__(self):
        signal.setitimer(signal.ITIMER_PROF, self.seconds)
        return self

    def __exit__(self, et, ev, tb):
        signal.setitimer(signal.ITIMER_PROF, 0)
        if et is None:
            return False
        if et is Hang:
            self.acc.mismatch(self.sub, "HANG", self.case, "HANG", "terminates")
            return True
        if et in (KeyboardInterrupt, SystemExit, GeneratorExit) or issubclass(et, (AssertionError, MemoryError)):
            return False
        if issubclass(et, Exception):
            # the explorers catch the exceptions a property allows where it allows them; anything that still gets
            # here was raised by the code under test at a point where the property promises a result
            import traceback
            tb = traceback.extract_tb(tb)
            where = f"{tb[-1].filename.split('/')[-1]}:{tb[-1].name}" if tb else "?"
            self.acc.mismatch(self.sub, f"raises-{et.__name__}", self.case, f"{et.__name__}: {str(ev)[:80]} @ {where}",
                              "a result")
            return True
        self.acc.mismatch(self.sub, f"escapes-{et.__name__}", self.case, f"{et.__name__}: {str(ev)[:80]}",
                          "a value or an ordinary exception")
        return True


def _dump_cov(modname):
    import json
    cov, covdir = CTX["cov"]
    data = cov.get_data()
    out = {os.path.relpath(f, os.path.join(CTX["repo"], "src")): sorted(data.lines(f) or []) for f in data.measured_files()}
    os.makedirs(covdir, exist_ok=True)
    with open(os.path.join(covdir, f"{modname}-{os.getpid()}.json"), "w") as f:
        json.dump(out, f)


_INIT_ERROR = []


def safe_init(repo, so_path, config):
    """Pool initializer: a failing initializer makes multiprocessing respawn workers for ever, so the failure is
    kept and reported by the first task instead (the check then exits 2: the tree cannot be set up)."""
    try:
        init(repo, so_path, config)
    except BaseException as e:  # noqa: BLE001
        import traceback
        _INIT_ERROR.append(f"{type(e).__name__}: {e}\n" + traceback.format_exc()[-1500:])


def run(task):
    if _INIT_ERROR:
        raise RuntimeError("worker initialisation failed (pendulum from this tree cannot be imported / set up): " + _INIT_ERROR[0])
    return _run(task)


def _run(task):
    """task = (property module name, function name, argument)"""
    modname, fn, arg = task
    mod = importlib.import_module(f"pendmc.props.{modname}")
    try:
        horizon(SHARD_WATCHDOG)   # a whole shard that never ends is an infrastructure failure
        return getattr(mod, fn)(arg)
    except BaseException as e:  # noqa: BLE001
        if isinstance(e, (KeyboardInterrupt, SystemExit)):
            raise
        if isinstance(e, Exception):
            raise
        # a BaseException would kill the pool worker silently and the pool would wait for ever
        raise RuntimeError(f"worker aborted by {type(e).__name__}: {str(e)[:200]} (shard {str(arg)[:200]})") from None
    finally:
        horizon_off()
        if CTX.get("cov"):
            _dump_cov(modname)
