"""Observation of live pendulum objects as plain integer tuples (never compared with == across zones)."""
from __future__ import annotations

import datetime as dt_

from .ref import calref, tzref

US = 1_000_000
DAY = 86400
_td_days = dt_.timedelta.days.__get__
_td_secs = dt_.timedelta.seconds.__get__
_td_us = dt_.timedelta.microseconds.__get__


def fields(d):
    return (d.year, d.month, d.day, d.hour, d.minute, d.second, d.microsecond)


def offset_s(d):
    o = d.utcoffset()
    if o is None:
        return None
    return _td_days(o) * DAY + _td_secs(o)


def wall_us(f):
    return ((calref.days_from_civil(f[0], f[1], f[2]) * DAY) + f[3] * 3600 + f[4] * 60 + f[5]) * US + f[6]


def instant_us(d):
    """UTC instant derived from the object's own fields and utcoffset() (which honours fold)."""
    o = offset_s(d)
    w = wall_us(fields(d))
    return w if o is None else w - o * US


def td_us(td):
    """Native slots of any timedelta subclass (Interval overrides .days)."""
    return (_td_days(td) * DAY + _td_secs(td)) * US + _td_us(td)


def tzkind(d):
    tz = d.tzinfo
    if tz is None:
        return "naive"
    return type(tz).__module__.split(".")[0] + "." + type(tz).__name__


_NAMES = None


def _names():
    global _NAMES
    if _NAMES is None:
        _NAMES = frozenset(tzref.zone_names())
    return _NAMES


def dt_key(d):
    """Implementation key: everything observable through the public accessors."""
    return (type(d).__name__, fields(d), offset_s(d), d.fold, getattr(d, "timezone_name", None), tzkind(d))


def obs_key(d):
    """Observable key: like dt_key, but the raw fold flag only where it selects the instant
    (on an unambiguous wall time it is inert: no accessor depends on it)."""
    f = fields(d)
    zn = getattr(d, "timezone_name", None)
    fold = None
    if isinstance(zn, str) and zn in _names():
        if len(tzref.zone(zn).solve(wall_us(f) // US)) >= 2:
            fold = d.fold
    return (f, offset_s(d), fold, zn)


def utc_dt(pendulum, inst_us):
    """A pendulum DateTime in UTC at an integer-microsecond instant, built from fields only."""
    s, us = divmod(inst_us, US)
    days, sod = divmod(s, DAY)
    y, m, d = calref.civil_from_days(days)
    return pendulum.DateTime(y, m, d, sod // 3600, sod % 3600 // 60, sod % 60, us, tzinfo=pendulum.UTC)


def native_utc(inst_us):
    s, us = divmod(inst_us, US)
    days, sod = divmod(s, DAY)
    y, m, d = calref.civil_from_days(days)
    return dt_.datetime(y, m, d, sod // 3600, sod % 3600 // 60, sod % 60, us, tzinfo=dt_.timezone.utc)


def expected_render(zname, inst_us):
    """(fields, offset) the tz database assigns to the instant in the zone (name or fixed seconds)."""
    r = tzref.render(tzref.zone(zname), inst_us)
    return r[:7], r[7]


def is_repeated_wall(zname, f):
    z = tzref.zone(zname)
    return len(z.solve(wall_us(f) // US)) >= 2


def iso(inst_us):
    s, us = divmod(inst_us, US)
    days, sod = divmod(s, DAY)
    y, m, d = calref.civil_from_days(days)
    return f"{y:04d}-{m:02d}-{d:02d}T{sod // 3600:02d}:{sod % 3600 // 60:02d}:{sod % 60:02d}.{us:06d}Z"
