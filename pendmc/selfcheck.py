"""Model validation: the reference tz reader (pendmc.ref.tzref) against stdlib zoneinfo, all zones.

A disagreement is an infrastructure failure (exit 2), never a VIOLATION.
"""
from __future__ import annotations

import datetime
import os
import sys


def validate(tzsource: str, stride: int = 1, verbose: bool = True):
    tzp = "/usr/share/zoneinfo" if tzsource == "sys" else ""
    os.environ["PYTHONTZPATH"] = tzp
    import zoneinfo
    zoneinfo.reset_tzpath(to=[tzp] if tzp else [])
    zoneinfo.ZoneInfo.clear_cache()
    from .ref import calref, tzref
    tzref.zone.cache_clear()
    epoch = datetime.datetime(1970, 1, 1, tzinfo=datetime.timezone.utc)
    names = tzref.zone_names()
    bad = n = ntr = 0
    for nm in names[::stride]:
        z = tzref.zone(nm)
        zi = zoneinfo.ZoneInfo(nm)
        trs = z.transitions(extra_years=(2100, 2400, 9990))
        ntr += len(trs)
        probes = set()
        for t, ob, oa in trs:
            g = abs(oa - ob)
            probes.update((t - 1, t, t + 1, t - g, t + g, t - 3600, t + 3600))
        for y in range(2, 9999, 37):
            probes.add(calref.days_from_civil(y, 6, 15) * 86400 + 43200)
        for t in probes:
            loc = (epoch + datetime.timedelta(seconds=t)).astimezone(zi)
            exp = (int(loc.utcoffset().total_seconds()), loc.tzname())
            got = z.lookup(t)
            n += 1
            if (got[0], got[2]) != exp:
                bad += 1
                if bad < 5:
                    print("MODEL-MISMATCH", nm, t, got, exp, file=sys.stderr)
    if verbose:
        print(f"[selfcheck] tz={tzsource} zones={len(names[::stride])} transitions={ntr} "
              f"probes={n} disagreements={bad}")
    return bad, n


if __name__ == "__main__":
    b, _ = validate(sys.argv[1] if len(sys.argv) > 1 else "sys")
    sys.exit(2 if b else 0)
