"""Shared accumulator used inside workers, and the merge logic used by the runner."""
from __future__ import annotations

import json
from collections import Counter

from . import known

MAX_CASES_PER_SIG = 3
MAX_SAMPLES = 6


def jsonable(x):
    if isinstance(x, (str, int, float, bool)) or x is None:
        return x
    if isinstance(x, dict):
        return {str(k): jsonable(v) for k, v in x.items()}
    if isinstance(x, (list, tuple)):
        return [jsonable(v) for v in x]
    if isinstance(x, (set, frozenset)):
        return sorted(jsonable(v) for v in x)
    return repr(x)


class Acc:
    """Per-shard accumulator.  Everything it returns is JSON-able and small."""

    def __init__(self, prop: str):
        self.prop = prop
        self.c = Counter()          # named counters (evaluations, transitions, ...)
        self.viol = {}              # signature -> {count, cases[]}
        self.kf = {}                # known-finding id -> {count, witness}
        self.samples = []
        self.outcomes = Counter()   # distinct outcome classes observed
        self.note = {}

    # -- bookkeeping
    def count(self, name: str, n: int = 1):
        self.c[name] += n

    def outcome(self, name: str, n: int = 1):
        self.outcomes[name] += n

    def sample(self, s):
        if len(self.samples) < MAX_SAMPLES:
            self.samples.append(jsonable(s))

    # -- mismatches
    def mismatch(self, sub: str, cls: str, case: dict, observed, expected, kf: str | None = None,
                 note: str | None = None):
        """Record a disagreement between implementation and reference.

        sub  : sub-check name;  cls : input class / kind of mismatch (both form the signature)
        case : JSON-able replayable description {'kind':..., ...}
        kf   : id of the known finding whose predicate AND defect model matched, if any
        """
        if kf is not None and known.is_open(self.prop, kf):
            e = self.kf.setdefault(kf, {"count": 0, "witness": None})
            e["count"] += 1
            if e["witness"] is None:
                e["witness"] = {"case": jsonable(case), "observed": jsonable(observed),
                                "expected": jsonable(expected)}
            return
        sig = f"{sub}/{cls}"
        v = self.viol.setdefault(sig, {"count": 0, "cases": []})
        v["count"] += 1
        if len(v["cases"]) < MAX_CASES_PER_SIG:
            v["cases"].append({"sub": sub, "class": cls, "case": jsonable(case),
                               "observed": jsonable(observed), "expected": jsonable(expected),
                               "note": note})

    def absorb(self, r: dict):
        """Merge the result() of an accumulator filled elsewhere (a fresh process) into this one."""
        self.c.update(r["c"])
        self.outcomes.update(r["outcomes"])
        for sig, v in r["viol"].items():
            m = self.viol.setdefault(sig, {"count": 0, "cases": []})
            m["count"] += v["count"]
            m["cases"] = (m["cases"] + v["cases"])[:MAX_CASES_PER_SIG]
        for k, v in r["kf"].items():
            m = self.kf.setdefault(k, {"count": 0, "witness": None})
            m["count"] += v["count"]
            m["witness"] = m["witness"] or v["witness"]
        for smp in r["samples"]:
            self.sample(smp)

    def result(self) -> dict:
        return {"c": dict(self.c), "viol": self.viol, "kf": self.kf, "samples": self.samples,
                "outcomes": dict(self.outcomes), "note": self.note}


class Merged:
    def __init__(self):
        self.c = Counter()
        self.viol = {}
        self.kf = {}
        self.samples = []
        self.outcomes = Counter()
        self.notes = []
        self.shards = 0

    def add(self, r: dict, config: dict):
        self.shards += 1
        self.c.update(r["c"])
        self.outcomes.update(r["outcomes"])
        for sig, v in r["viol"].items():
            m = self.viol.setdefault(sig, {"count": 0, "cases": []})
            m["count"] += v["count"]
            for cse in v["cases"]:
                cse = dict(cse, config=config)
                m["cases"].append(cse)
        for k, v in r["kf"].items():
            m = self.kf.setdefault(k, {"count": 0, "witness": None})
            m["count"] += v["count"]
            if m["witness"] is None and v["witness"] is not None:
                m["witness"] = dict(v["witness"], config=config)
        for s in r["samples"]:
            if len(self.samples) < 12:
                self.samples.append(s)
        if r.get("note"):
            self.notes.append(r["note"])

    def finalize(self):
        # deterministic representative: shortest case description first
        for v in self.viol.values():
            v["cases"].sort(key=lambda c: (len(json.dumps(c["case"], sort_keys=True)),
                                           json.dumps(c["case"], sort_keys=True),
                                           json.dumps(c["config"], sort_keys=True)))
            del v["cases"][MAX_CASES_PER_SIG:]
