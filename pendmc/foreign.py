"""tzinfo objects that are NOT pendulum timezones, for receivers / operands that reach pendulum from outside
(raw constructor, fromisoformat(), astimezone(<foreign>), instance(), replace(tzinfo=...)).

kinds
    zoneinfo        zoneinfo.ZoneInfo(name)             - pendulum maps it to its own Timezone by key
    stdlib          datetime.timezone(offset)           - mapped to a FixedTimezone by offset
    stdlib-named    datetime.timezone(offset, "EST")    - same, but carries a name that other offsets carry too
    keyless         a DST-aware tzinfo without key/zone - pendulum can only freeze it to the offset at the value
"""
from __future__ import annotations

import datetime as dt_
import zoneinfo

_ZI = {}


def zi(name):
    z = _ZI.get(name)
    if z is None:
        z = _ZI[name] = zoneinfo.ZoneInfo(name)
    return z


class KeylessZone(dt_.tzinfo):
    """Delegates to a ZoneInfo but exposes neither `key` nor `zone`/`localize` (like a dateutil tzfile or a
    hand-written tzinfo): fold-aware, variable offset, no name pendulum could look up."""

    def __init__(self, name):
        self._zi = zi(name)
        self._label = "X-" + name

    def utcoffset(self, dt):
        return None if dt is None else self._zi.utcoffset(dt.replace(tzinfo=self._zi))

    def dst(self, dt):
        return None if dt is None else self._zi.dst(dt.replace(tzinfo=self._zi))

    def tzname(self, dt):
        return self._label if dt is None else self._zi.tzname(dt.replace(tzinfo=self._zi))

    def fromutc(self, dt):
        r = self._zi.fromutc(dt.replace(tzinfo=self._zi))
        return r.replace(tzinfo=self)

    def __repr__(self):
        return f"KeylessZone({self._label!r})"


_KL = {}


def keyless(name):
    k = _KL.get(name)
    if k is None:
        k = _KL[name] = KeylessZone(name)
    return k


def named_fixed(offset_s, name="EST"):
    return dt_.timezone(dt_.timedelta(seconds=offset_s), name)


def fixed(offset_s):
    return dt_.timezone(dt_.timedelta(seconds=offset_s))
