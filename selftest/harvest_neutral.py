#!/venv/bin/python
"""Harvest a behaviour-preserving refactor from a scratch worktree into /verif/neutral/<name>/ (patch.diff, the
agent's differential script, meta.json), confirm the baseline suite, remove the worktree."""
import glob, json, os, shutil, subprocess, sys
VERIF = os.path.dirname(os.path.dirname(os.path.abspath(__file__)))
def sh(cmd): return subprocess.run(cmd, shell=True, stdout=subprocess.PIPE, stderr=subprocess.STDOUT, text=True)
wt, name, area = sys.argv[1:4]
wt = os.path.realpath(wt)
out = os.path.join(VERIF, "neutral", name); os.makedirs(out, exist_ok=True)
diff = sh(f"git -C {wt} diff -- src rust").stdout
assert diff.strip(), "no diff"
open(os.path.join(out, "patch.diff"), "w").write(diff)
for f in glob.glob(os.path.join(wt, "equiv_*.py")): shutil.copyfile(f, os.path.join(out, os.path.basename(f)))
rust = "rust/" in sh(f"git -C {wt} diff --stat -- rust").stdout
if rust: print(sh(f"/tmp/wt-tools/rebuild_rust.sh {wt}").stdout.strip())
base = sh(f"/tmp/wt-tools/run_baseline.sh {wt}")
meta = {"name": name, "area": area, "kind": "behaviour-preserving refactor (must leave every check silent)", "touches_rust": rust,
        "baseline_unchanged_with_patch": base.returncode == 0, "baseline_tail": base.stdout.strip().splitlines()[-2:],
        "files": sh(f"git -C {wt} diff --stat -- src rust").stdout.strip().splitlines(), "checks": None}
json.dump(meta, open(os.path.join(out, "meta.json"), "w"), indent=1)
print(json.dumps(meta["baseline_tail"])); print(meta["files"][-1])
sh(f"git -C /repo worktree remove --force {wt}"); shutil.rmtree(wt, ignore_errors=True); sh("git -C /repo worktree prune")
