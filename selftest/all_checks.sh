#!/bin/bash
# usage: all_checks.sh [tier] [seed]   -- runs every claimed check once and prints one line each
cd "$(dirname "$(readlink -f "$0")")/.."
TIER=${1:-quick}; SEED=${2:-0}
rc=0
for id in C01 C02 C03 C04 C05 C06 C07 C08 C09 C10 C11 C12 C13 C14 C15 C16 C17 C18 C19 C20; do
  out=$(VERIF_SEED=$SEED ./check $id --tier $TIER 2>&1); e=$?
  echo "$id exit=$e $(echo "$out" | grep -E '^\[C' | tail -1)"
  echo "$out" | grep -E '^(VIOLATION|INFRA)' | head -5
  [ $e -ne 0 ] && rc=1
done
exit $rc
