#!/venv/bin/python
"""Apply a patch (or one textual replacement) to a scratch copy of /repo and run checks on it.

usage: mut.py [--patch FILE | --sub PATH OLD NEW] [--baseline] [--tier quick] C07 C17 ...

The scratch copy lives under /var/tmp (outside /repo and /verif) and is removed afterwards.
Checks are pointed at it with PENDMC_REPO; /repo itself is never touched.
"""
from __future__ import annotations

import argparse
import os
import shutil
import subprocess
import sys
import tempfile

VERIF = os.path.dirname(os.path.dirname(os.path.abspath(__file__)))


def main():
    ap = argparse.ArgumentParser()
    ap.add_argument("--patch")
    ap.add_argument("--sub", nargs=3, metavar=("PATH", "OLD", "NEW"))
    ap.add_argument("--baseline", action="store_true", help="also run the repository's test suite")
    ap.add_argument("--tier", default="quick")
    ap.add_argument("--keep", action="store_true")
    ap.add_argument("props", nargs="*")
    a = ap.parse_args()
    scratch = tempfile.mkdtemp(prefix="pendmc-mut-", dir="/var/tmp")
    rc = 0
    try:
        subprocess.check_call(["rsync", "-a", "--exclude", ".git", "--exclude", "rust/target",
                               "--exclude", "__pycache__", "/repo/", scratch + "/"])
        if a.patch:
            subprocess.check_call(["patch", "-p1", "-s", "-d", scratch, "-i", os.path.abspath(a.patch)])
        if a.sub:
            p = os.path.join(scratch, a.sub[0])
            s = open(p).read()
            if s.count(a.sub[1]) != 1:
                print(f"replacement target occurs {s.count(a.sub[1])} times", file=sys.stderr)
                return 3
            open(p, "w").write(s.replace(a.sub[1], a.sub[2]))
        env = dict(os.environ, PENDMC_REPO=scratch)
        if a.baseline:
            rust_changed = subprocess.run(["diff", "-rq", "/repo/rust/src", scratch + "/rust/src"],
                                          stdout=subprocess.DEVNULL).returncode != 0
            if rust_changed:
                so = subprocess.check_output(["/venv/bin/python", "-m", "pendmc.buildext", scratch],
                                             cwd=VERIF, text=True).strip().splitlines()[-1]
                for n in os.listdir(scratch + "/src/pendulum"):
                    if n.startswith("_pendulum") and n.endswith(".so"):
                        shutil.copyfile(so, os.path.join(scratch, "src/pendulum", n))
            p = subprocess.run(["/venv/bin/python", "-m", "pytest", "-q", "-p", "no:cacheprovider",
                                "--timeout=900", "-x", "-q"], cwd=scratch,
                               env=dict(os.environ, PYTHONPATH=scratch + "/src"),
                               stdout=subprocess.PIPE, stderr=subprocess.STDOUT, text=True)
            tail = p.stdout.strip().splitlines()[-1] if p.stdout.strip() else ""
            print(f"[baseline] exit={p.returncode} {tail}")
        for prop in a.props:
            p = subprocess.run([os.path.join(VERIF, "check"), prop, "--tier", a.tier], env=env,
                               stdout=subprocess.PIPE, stderr=subprocess.STDOUT, text=True)
            out = [ln for ln in p.stdout.splitlines()
                   if ln.startswith(("VIOLATION", "KNOWN-FINDING", "[C", "INFRA"))]
            print(f"[{prop}] exit={p.returncode}")
            for ln in out[:12]:
                print("   ", ln[:300])
            rc = max(rc, p.returncode)
    finally:
        if not a.keep:
            shutil.rmtree(scratch, ignore_errors=True)
        else:
            print("kept", scratch)
    return rc


if __name__ == "__main__":
    sys.exit(main())
