#!/venv/bin/python
"""Run every check against every behaviour-preserving refactor under /verif/neutral: all must stay silent (exit 0)."""
import json, os, shutil, subprocess, sys, tempfile
VERIF = os.path.dirname(os.path.dirname(os.path.abspath(__file__)))
ALL = [f"C{i:02d}" for i in range(1, 21)]
only = sys.argv[1:]
rc = 0
for name in sorted(os.listdir(os.path.join(VERIF, "neutral"))):
    d = os.path.join(VERIF, "neutral", name)
    if not os.path.isfile(os.path.join(d, "meta.json")) or (only and name not in only):
        continue
    scratch = tempfile.mkdtemp(prefix="pendmc-neutral-", dir="/var/tmp")
    try:
        subprocess.check_call(["rsync", "-a", "--exclude", ".git", "--exclude", "rust/target", "--exclude", "__pycache__", "/repo/", scratch + "/"])
        p = subprocess.run(["patch", "-p1", "-s", "-d", scratch, "-i", os.path.join(d, "patch.diff")], stdout=subprocess.PIPE, stderr=subprocess.STDOUT, text=True)
        if p.returncode:
            print(name, "PATCH DOES NOT APPLY"); rc = 1; continue
        res = {}
        for prop in ALL:
            q = subprocess.run([os.path.join(VERIF, "check"), prop, "--tier", "quick"], env=dict(os.environ, PENDMC_REPO=scratch),
                               stdout=subprocess.PIPE, stderr=subprocess.STDOUT, text=True)
            res[prop] = q.returncode
            if q.returncode:
                print(name, prop, "exit", q.returncode)
                for ln in q.stdout.splitlines():
                    if ln.startswith(("VIOLATION", "INFRA")):
                        print("   ", ln[:300])
        meta = json.load(open(os.path.join(d, "meta.json")))
        meta["checks"] = {"tier": "quick", "alarms": sorted(p for p, r in res.items() if r), "silent": sorted(p for p, r in res.items() if not r)}
        json.dump(meta, open(os.path.join(d, "meta.json"), "w"), indent=1)
        print(name, "alarms:", meta["checks"]["alarms"] or "none")
        rc = rc or (1 if meta["checks"]["alarms"] else 0)
    finally:
        shutil.rmtree(scratch, ignore_errors=True)
sys.exit(rc)
