#!/bin/bash
# usage: auto_rebase.sh <seed name>...  -- re-express seeds whose patch no longer applies: find the newest commit of /repo where it
# applies, commit it there on a scratch branch and cherry-pick that onto HEAD (3-way); writes <seed>/patch.diff.new when it merges cleanly
for name in "$@"; do
  sd=/verif/seeded/$name
  wt=/tmp/rebase-$name
  ok=""
  for c in $(git -C /repo rev-list HEAD | head -80); do
    if git -C /repo worktree add --detach $wt $c >/dev/null 2>&1; then
      if git -C $wt apply --check $sd/patch.diff 2>/dev/null; then
        git -C $wt apply $sd/patch.diff
        git -C $wt -c user.name=x -c user.email=x@x commit -qam "seed $name" 
        seedc=$(git -C $wt rev-parse HEAD)
        git -C $wt checkout -q --detach $(git -C /repo rev-parse HEAD)
        if git -C $wt -c user.name=x -c user.email=x@x cherry-pick $seedc >/dev/null 2>&1; then
          git -C $wt diff HEAD~1 HEAD -- src rust > $sd/patch.diff.new
          echo "$name: rebased from $c ($(wc -l < $sd/patch.diff.new) lines)"
        else
          echo "$name: CONFLICT when picking from $c"; git -C $wt diff --name-only --diff-filter=U
        fi
        ok=1
      fi
      git -C /repo worktree remove --force $wt
      [ -n "$ok" ] && break
    fi
  done
  [ -z "$ok" ] && echo "$name: no base commit found"
done
git -C /repo worktree prune
