#!/bin/bash
# usage: reharvest.sh <seeded/<name>.rejected> <pid> <name> "<needs>"  -- re-run the confirmation of a rejected harvest in a fresh worktree
set -e
src=$(readlink -f "$1"); pid=$2; name=$3; needs=$4
wt=/tmp/rewt-$name
/tmp/wt-tools/mk_worktree.sh $wt >/dev/null
git -C $wt apply $src/patch.diff
cp $src/demo_*.py $wt/
rm -rf "$src"
exec /verif/selftest/harvest.py $wt $pid $name "$needs"
