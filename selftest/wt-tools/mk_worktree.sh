#!/bin/bash
# usage: mk_worktree.sh <dir>  -- scratch git worktree of /repo (HEAD, detached) with a compiled module built from /repo's current Rust sources
set -e
d=$1
git -C /repo worktree add --detach "$d" HEAD >/dev/null 2>&1
so=$(/venv/bin/python - <<'P'
import sys; sys.path.insert(0,'/verif')
from pendmc import buildext
print(buildext.ensure("/repo", verbose=False))
P
)
cp "$so" "$d/src/pendulum/_pendulum.cpython-312-x86_64-linux-gnu.so"
echo "$d"
