#!/venv/bin/python
"""usage: mk_tasks.py <wave tag, e.g. wt11> [extra hint file]  -- writes <worktree>/TASK.md for /tmp/<tag>-C01../C20 (property text + earlier sites only)"""
import collections
import glob
import json
import os
import sys

V = "/verif"
tag = sys.argv[1]
props = {json.loads(l)["id"]: json.loads(l) for l in open(f"{V}/properties.jsonl")}
by = collections.defaultdict(list)
for m in sorted(glob.glob(f"{V}/seeded/*/meta.json")):
    d = json.load(open(m))
    files = ", ".join(f.split("|")[0].strip() for f in d.get("files", [])[:-1])
    by[d["property"]].append(f"- {files}: {d.get('needs_to_manifest', '')}")
focus = {}
if len(sys.argv) > 2:
    focus = json.load(open(sys.argv[2]))
for pid, p in props.items():
    wt = f"/tmp/{tag}-{pid}"
    if not os.path.isdir(wt):
        continue
    stmt = p.get("statement") or p.get("text")
    body = f"""# Task

You are working in `{wt}`, a scratch git worktree of the Python library **pendulum** (sdispater/pendulum 3.x: pure
Python in `src/pendulum`, optional compiled helpers in `rust/`).  Work only inside this directory.  Do not look at or
use anything under `/verif` or `/repo`.

Below is a semantic property that users of the library rely on.  Produce **one realistic change to the library's source**
(under `src/pendulum/` and/or `rust/src/`) that **breaks this property** while

1. the library still imports/compiles, and
2. the repository's existing test suite still passes exactly as before: run `/tmp/wt-tools/run_baseline.sh {wt}`
   (about 15 s); it must end with `OK: same 1606 tests pass, no new failures`.  (214 tests fail on the untouched tree
   because time travel is unavailable here; that is expected and unchanged.)  Never edit anything under `tests/`.

The change should look like something a maintainer could plausibly commit by accident - a refactor with a subtle slip, a
"performance" fast path that is wrong in a corner, a cache with a key that is too coarse, a boundary condition, a wrong
branch for an unusual operand type, two sites that each look fine alone - **not** sabotage that any ordinary use would
expose at once.  It must need something *specific* to manifest: an unusual input, a particular zone/transition/calendar
shape, a multi-step sequence of operations, a particular order of calls in one process, a particular configuration or
back end.

## The property ({pid}: {p.get('title', '')})

{stmt}

## Sites and triggers already used by earlier changes - choose a DIFFERENT site AND a different kind of trigger

{chr(10).join(by[pid])}

{focus.get(pid, '')}

## Practicalities

* Interpreter: `/venv/bin/python`; run your code with `PYTHONPATH={wt}/src` so that this worktree's sources are used.
* The compiled helpers (`pendulum._pendulum`, built from `rust/`) are used by default; `PENDULUM_EXTENSIONS=0` selects the
  pure-Python twins (`src/pendulum/_helpers.py`, `src/pendulum/parsing/iso8601.py`).  The existing test suite only runs on
  the compiled helpers.  If you change `rust/src`, rebuild with `/tmp/wt-tools/rebuild_rust.sh {wt}` (offline, ~40 s)
  before testing.
* There is no network.  Do not install anything.  Do not commit.  Leave your change as uncommitted modifications of the
  working tree (`git diff` must show it).  Keep the patch small (ideally < 40 changed lines).
* Write a demonstration `{wt}/demo_{pid}.py`: a stand-alone script (no pytest needed) that checks the property on the
  specific trigger against an independently computed expectation (standard library, hand arithmetic), prints what it
  observed, and **exits 1 with your change and 0 on the untouched sources**.  Verify both: run it with your change, then
  `git stash`-free check by temporarily reverting (`git diff > /tmp/{tag}-{pid}.patch; git checkout -- src rust; run;
  git apply /tmp/{tag}-{pid}.patch`; for Rust changes rebuild after each switch).
* If you find that the **untouched** sources already violate the property for some input, mention it in your report but
  build your change around inputs where the untouched sources are right.

## Report (your final message)

State: the file(s)/function changed, what exactly the slip is, what is needed for it to manifest, the output of the
baseline script's last line, and the demo's exit codes with/without the change.
"""
    open(f"{wt}/TASK.md", "w").write(body)
    print(wt)
