#!/bin/bash
# usage: rebuild_rust.sh <worktree>  -- rebuild the compiled helpers of a worktree offline and install them in its src/pendulum
set -e
wt=$(readlink -f "$1")
t=/var/tmp/wt-target-$(echo "$wt" | md5sum | cut -c1-10)
mkdir -p "$t"
(cd "$wt/rust" && CARGO_NET_OFFLINE=true CARGO_TARGET_DIR="$t" cargo build --release --offline 2>&1 | tail -3)
cp "$t/release/lib_pendulum.so" "$wt/src/pendulum/_pendulum.cpython-312-x86_64-linux-gnu.so"
rm -rf "$t"
echo "rebuilt compiled module for $wt"
