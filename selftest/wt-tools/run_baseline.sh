#!/bin/bash
# usage: run_baseline.sh <worktree>  -- run the repository's test suite on a worktree and compare with the 1606 baseline tests
wt=$(readlink -f "$1")
x=$(mktemp /var/tmp/junit-XXXXXX.xml)
cd "$wt" && PYTHONPATH="$wt/src" /venv/bin/python -m pytest -q -p no:cacheprovider --timeout=900 --continue-on-collection-errors --junitxml="$x" 2>&1 | tail -1
/venv/bin/python - "$x" <<'P'
import json, sys, xml.etree.ElementTree as ET
base = set(json.load(open('/root/.vp/BASELINE.json'))['stable_pass'])
ok = set()
for tc in ET.parse(sys.argv[1]).getroot().iter('testcase'):
    if not any(c.tag in ('failure', 'error', 'skipped') for c in tc):
        ok.add(tc.get('classname') + '::' + tc.get('name'))
missing = sorted(base - ok)
if missing:
    print(f"BROKEN: {len(missing)} baseline tests no longer pass, e.g. {missing[:5]}"); sys.exit(1)
print(f"OK: same {len(base)} tests pass, no new failures")
P
rc=$?; rm -f "$x"; exit $rc
