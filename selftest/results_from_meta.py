#!/venv/bin/python
"""Rewrite seeded/RESULTS.md from the detected_by records that run_seeded.py keeps in every seeded/<name>/meta.json
(run_seeded.py itself only rewrites the table after a full run)."""
import glob
import json
import os

V = os.path.dirname(os.path.dirname(os.path.abspath(__file__)))
rows = []
for m in sorted(glob.glob(os.path.join(V, "seeded", "*", "meta.json"))):
    d = json.load(open(m))
    name = os.path.basename(os.path.dirname(m))
    if "superseded" in d:
        rows.append((name, d["property"], "(superseded by a fix: no longer breaks the property, see meta.json)", ""))
        continue
    db = d.get("detected_by") or {}
    det = db.get("checks") or []
    first = (db.get("detail") or {}).get(d["property"]) or ""
    rows.append((name, d["property"], ", ".join(det) or "**missed**", first[:110]))
with open(os.path.join(V, "seeded", "RESULTS.md"), "w") as f:
    f.write("# Seeded property-breaking changes vs. checks (quick tier; the check of the property each change breaks)\n\n")
    f.write("Every change keeps the repository's 1606 baseline tests green (see each meta.json).  Each row records the last\n"
            "run of `selftest/run_seeded.py` for that change.\n\n")
    f.write("| change | breaks | detected by | first violation signature |\n|---|---|---|---|\n")
    for r in rows:
        f.write("| " + " | ".join(str(x).replace("|", "/") for x in r) + " |\n")
missed = [r[0] for r in rows if r[2] == "**missed**"]
print(len(rows), "seeds;", "missed:", missed)
