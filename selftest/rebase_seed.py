#!/venv/bin/python
"""Re-base a seeded change whose patch no longer applies after a fix: commit in /repo.

usage: rebase_seed.py <seed name> PATH OLD NEW [PATH OLD NEW ...]

Applies the textual replacement(s) (the same edit, expressed against the current tree) to a scratch
copy, re-confirms: baseline suite unchanged, demo exits non-zero with and zero without the change;
then rewrites seeded/<name>/patch.diff and notes the re-base in meta.json.
"""
from __future__ import annotations

import glob
import json
import os
import shutil
import subprocess
import sys
import tempfile

VERIF = os.path.dirname(os.path.dirname(os.path.abspath(__file__)))


def main():
    name = sys.argv[1]
    subs = sys.argv[2:]
    sdir = os.path.join(VERIF, "seeded", name)
    scratch = tempfile.mkdtemp(prefix="pendmc-rebase-", dir="/var/tmp")
    try:
        subprocess.check_call(["rsync", "-a", "--exclude", ".git", "--exclude", "rust/target",
                               "--exclude", "__pycache__", "/repo/", scratch + "/"])
        touched = set()
        for i in range(0, len(subs), 3):
            path, old, new = subs[i:i + 3]
            p = os.path.join(scratch, path)
            s = open(p).read()
            assert s.count(old) == 1, f"{path}: target occurs {s.count(old)} times"
            open(p, "w").write(s.replace(old, new))
            touched.add(path)
        diff = ""
        for path in sorted(touched):
            d = subprocess.run(["diff", "-u", "--label", f"a/{path}", "--label", f"b/{path}",
                                os.path.join("/repo", path), os.path.join(scratch, path)],
                               stdout=subprocess.PIPE, text=True).stdout
            diff += f"diff --git a/{path} b/{path}\n" + d
        rust = any(p.startswith("rust/") for p in touched)
        if rust:
            print(subprocess.run(["/tmp/wt-tools/rebuild_rust.sh", scratch], stdout=subprocess.PIPE,
                                 stderr=subprocess.STDOUT, text=True).stdout.strip())
        base = subprocess.run(["/tmp/wt-tools/run_baseline.sh", scratch], stdout=subprocess.PIPE,
                              stderr=subprocess.STDOUT, text=True)
        demo = glob.glob(os.path.join(sdir, "demo_*.py"))[0]
        env = dict(os.environ)
        env.pop("PENDULUM_EXTENSIONS", None)
        w = subprocess.run(["/venv/bin/python", demo], cwd=scratch, env=dict(env, PYTHONPATH=scratch + "/src"),
                           stdout=subprocess.PIPE, stderr=subprocess.STDOUT, text=True)
        wo = subprocess.run(["/venv/bin/python", demo], cwd="/repo", env=dict(env, PYTHONPATH="/repo/src"),
                            stdout=subprocess.PIPE, stderr=subprocess.STDOUT, text=True)
        ok = base.returncode == 0 and w.returncode != 0 and wo.returncode == 0
        print("baseline:", base.stdout.strip().splitlines()[-1], "| demo with:", w.returncode, "without:", wo.returncode)
        if not ok:
            print("NOT CONFIRMED; patch left untouched")
            print(wo.stdout[-600:])
            return 1
        open(os.path.join(sdir, "patch.diff"), "w").write(diff)
        mp = os.path.join(sdir, "meta.json")
        m = json.load(open(mp))
        head = subprocess.check_output(["git", "-C", "/repo", "log", "--format=%h", "-1"], text=True).strip()
        m["rebased"] = (f"same edit re-expressed against /repo at {head} (a fix: commit touched the same lines); "
                        "re-confirmed on a scratch copy: baseline 1606 passed / no new failures, demo exit "
                        f"{w.returncode} with and 0 without the change")
        json.dump(m, open(mp, "w"), indent=1)
        print("rebased", name)
        return 0
    finally:
        shutil.rmtree(scratch, ignore_errors=True)


if __name__ == "__main__":
    sys.exit(main())
