#!/venv/bin/python
"""Harvest a sub-agent's property-breaking change from its scratch worktree into /verif/seeded/<name>/.

usage: harvest.py <worktree> <property id> <name> "<what it needs to manifest>"

Confirms independently (in the worktree): the baseline suite is unchanged with the patch, the demo
exits non-zero with the patch and zero without it.  Writes patch.diff, the demo and meta.json, then
removes the worktree (and its build output).
"""
from __future__ import annotations

import glob
import json
import os
import shutil
import subprocess
import sys

VERIF = os.path.dirname(os.path.dirname(os.path.abspath(__file__)))
SO = "src/pendulum/_pendulum.cpython-312-x86_64-linux-gnu.so"


def sh(cmd, **kw):
    return subprocess.run(cmd, shell=True, stdout=subprocess.PIPE, stderr=subprocess.STDOUT, text=True, **kw)


def main():
    wt, pid, name, needs = sys.argv[1:5]
    wt = os.path.realpath(wt)
    out = os.path.join(VERIF, "seeded", name)
    os.makedirs(out, exist_ok=True)
    diff = sh(f"git -C {wt} diff -- src rust").stdout
    if not diff.strip():
        print("no diff in worktree")
        return 1
    open(os.path.join(out, "patch.diff"), "w").write(diff)
    demos = glob.glob(os.path.join(wt, "demo_*.py"))
    if not demos:
        print("no demo")
        return 1
    demo = demos[0]
    shutil.copyfile(demo, os.path.join(out, os.path.basename(demo)))
    rust = "rust/" in sh(f"git -C {wt} diff --stat -- rust").stdout
    env = dict(os.environ, PYTHONPATH=os.path.join(wt, "src"))
    env.pop("PENDULUM_EXTENSIONS", None)
    if rust:
        print(sh(f"/tmp/wt-tools/rebuild_rust.sh {wt}").stdout.strip())
    base = sh(f"/tmp/wt-tools/run_baseline.sh {wt}")
    base_ok = base.returncode == 0
    with_rc = subprocess.run(["/venv/bin/python", demo], cwd=wt, env=env, stdout=subprocess.PIPE,
                             stderr=subprocess.STDOUT, text=True)
    # without the change
    sh(f"git -C {wt} checkout -- src rust")     # (no git stash: the stash is shared between worktrees)
    if rust:
        shutil.copyfile(os.path.join("/repo", SO), os.path.join(wt, SO))
    without_rc = subprocess.run(["/venv/bin/python", demo], cwd=wt, env=env, stdout=subprocess.PIPE,
                                stderr=subprocess.STDOUT, text=True)
    sh(f"git -C {wt} apply {os.path.join(out, 'patch.diff')}")
    meta = {
        "property": pid,
        "name": name,
        "needs_to_manifest": needs,
        "touches_rust": rust,
        "confirmed": {
            "baseline_cmd": f"/tmp/wt-tools/run_baseline.sh {wt}  (repository test suite with PYTHONPATH=<worktree>/src)",
            "baseline_unchanged_with_patch": base_ok,
            "baseline_tail": base.stdout.strip().splitlines()[-2:],
            "demo": os.path.basename(demo),
            "demo_exit_with_patch": with_rc.returncode,
            "demo_exit_without_patch": without_rc.returncode,
            "demo_output_with_patch_tail": with_rc.stdout.strip().splitlines()[-3:],
        },
        "files": sh(f"git -C {wt} diff --stat -- src rust").stdout.strip().splitlines(),
        "detected_by": None,
    }
    ok = base_ok and with_rc.returncode != 0 and without_rc.returncode == 0
    meta["kept"] = ok
    json.dump(meta, open(os.path.join(out, "meta.json"), "w"), indent=1)
    print(json.dumps(meta["confirmed"], indent=1))
    print("KEPT" if ok else "REJECTED (not confirmed)")
    sh(f"git -C /repo worktree remove --force {wt}")
    shutil.rmtree(wt, ignore_errors=True)
    sh("git -C /repo worktree prune")
    if not ok:
        os.rename(out, out + ".rejected")
    return 0 if ok else 1


if __name__ == "__main__":
    sys.exit(main())
