#!/venv/bin/python
"""Which executable lines of src/pendulum do the checks execute?  (diagnostic for blind spots, not evidence)

usage: PENDMC_COVERAGE=/var/tmp/pendmc-cov ./check C01 ... ; coverage_report.py /var/tmp/pendmc-cov [--by-check]
"""
import collections
import glob
import json
import os
import sys


def executable_lines(path):
    src = open(path).read()
    code = compile(src, path, "exec")
    lines = set()
    stack = [code]
    while stack:
        c = stack.pop()
        for _, _, ln in c.co_lines():
            if ln:
                lines.add(ln)
        stack.extend(k for k in c.co_consts if hasattr(k, "co_lines"))
    return lines


def main():
    d = sys.argv[1]
    hit = collections.defaultdict(set)
    for f in glob.glob(os.path.join(d, "*.json")):
        for rel, lines in json.load(open(f)).items():
            hit[rel].update(lines)
    root = "/repo/src"
    tot_e = tot_h = 0
    for dirpath, _, files in os.walk(os.path.join(root, "pendulum")):
        if "/locales/" in dirpath + "/" and not dirpath.endswith("locales"):
            continue
        for fn in sorted(files):
            if not fn.endswith(".py"):
                continue
            path = os.path.join(dirpath, fn)
            rel = os.path.relpath(path, root)
            ex = executable_lines(path)
            src = open(path).read().split("\n")
            miss = sorted(ln for ln in ex if ln not in hit.get(rel, ()) and not src[ln - 1].strip().startswith(('"""', "...", "@overload", "@")))
            tot_e += len(ex)
            tot_h += len(ex) - len(miss)
            if miss:
                # group consecutive
                groups, start, prev = [], miss[0], miss[0]
                for ln in miss[1:]:
                    if ln > prev + 1:
                        groups.append((start, prev))
                        start = ln
                    prev = ln
                groups.append((start, prev))
                print(f"{rel}: {len(ex) - len(miss)}/{len(ex)} lines; not executed: " + ", ".join(f"{a}-{b}" if a != b else str(a) for a, b in groups))
    print(f"TOTAL {tot_h}/{tot_e}")


if __name__ == "__main__":
    main()
