#!/venv/bin/python
"""Systematic single-operator mutants of the code the properties are anchored in.

usage: automut.py FILE[:FIRST-LAST] ... [--max N] [--procs P]

For every mutable line of the given source files (relative to /repo) one textual operator replacement is applied
on a scratch copy; the repository's own suite is run first (killed mutants are dropped); for survivors the checks
mapped to the file are run with PENDMC_REPO=<scratch>.  Appends one JSON line per mutant to
/verif/seeded/automut.jsonl (file, line, before, after, suite, checks that alarmed).  Survivors that no check
reports must be inspected by hand: they are either equivalent mutants or blind spots.
"""
from __future__ import annotations

import argparse
import json
import os
import re
import shutil
import subprocess
import sys
import tempfile

VERIF = os.path.dirname(os.path.dirname(os.path.abspath(__file__)))
OUT = os.path.join(VERIF, "seeded", "automut.jsonl")

MAP = {
    "src/pendulum/datetime.py": ["C01", "C02", "C03", "C04", "C12", "C16", "C05", "C11", "C14"],
    "src/pendulum/date.py": ["C04", "C12", "C15", "C16", "C11", "C05"],
    "src/pendulum/time.py": ["C20", "C11", "C14"],
    "src/pendulum/duration.py": ["C09", "C10", "C14", "C18", "C05"],
    "src/pendulum/interval.py": ["C05", "C06", "C19", "C14", "C18", "C11"],
    "src/pendulum/helpers.py": ["C03", "C04", "C19", "C20"],
    "src/pendulum/_helpers.py": ["C06", "C15"],
    "src/pendulum/tz/timezone.py": ["C01", "C02", "C14"],
    "src/pendulum/__init__.py": ["C01", "C02", "C08"],
    "src/pendulum/parser.py": ["C07", "C13", "C17"],
    "src/pendulum/parsing/__init__.py": ["C07", "C13", "C17"],
    "src/pendulum/parsing/iso8601.py": ["C07", "C13", "C17"],
    "src/pendulum/formatting/formatter.py": ["C08", "C18"],
    "src/pendulum/formatting/difference_formatter.py": ["C18"],
}

OPS = [
    (r"(?<![<>=!])<=(?!=)", "<"), (r"(?<![<>=!-])>=(?!=)", ">"), (r"(?<![<>=!])<(?![<=])", "<="), (r"(?<![<>=!-])>(?![>=])", ">="),
    (r"==", "!="), (r"!=", "=="), (r" \+ 1\b", " - 1"), (r" - 1\b", " + 1"), (r" and ", " or "), (r" or ", " and "),
    (r"\bnot ", ""), (r"\b59\b", "60"), (r"\b23\b", "24"), (r"\b12\b", "13"), (r"\b7\b", "6"), (r"\b60\b", "61"),
    (r"fold=self\.fold", "fold=1"), (r"fold=dt\.fold", "fold=0"), (r"fold=1\b", "fold=0"), (r"\bTrue\b", "False"),
    (r"\bmin\(", "max("), (r" \* ", " + "), (r" // ", " / "), (r"\+= ", "-= "), (r"-= ", "+= "),
]


def mutants(path, first, last):
    lines = open(os.path.join("/repo", path)).read().split("\n")
    in_doc = False
    for i, ln in enumerate(lines, 1):
        st = ln.strip()
        if st.count('"""') == 1:
            in_doc = not in_doc
            continue
        if in_doc or not st or st.startswith(("#", "import ", "from ", "@", '"""', "raise ", "def ", "class ")):
            continue
        if first and not (first <= i <= last):
            continue
        if "TYPE_CHECKING" in ln or "->" in ln and "def " in ln:
            continue
        code = ln.split("  # ")[0]
        for pat, rep in OPS:
            m = re.search(pat, code)
            if m:
                new = code[:m.start()] + re.sub(pat, rep, code[m.start():], count=1) + ln[len(code):]
                if new != ln:
                    yield i, ln, new


def run(cmd, **kw):
    return subprocess.run(cmd, stdout=subprocess.PIPE, stderr=subprocess.STDOUT, text=True, **kw)


def one(job):
    """suite first; for a survivor the mapped checks are run until the first one alarms."""
    path, i, old, new, procs, every = job
    scratch = tempfile.mkdtemp(prefix="pendmc-automut-", dir="/var/tmp")
    rec = {"file": path, "line": i, "before": old.strip(), "after": new.strip()}
    try:
        subprocess.check_call(["rsync", "-a", "--exclude", ".git", "--exclude", "rust/target", "--exclude", "__pycache__",
                               "/repo/", scratch + "/"])
        p = os.path.join(scratch, path)
        ls = open(p).read().split("\n")
        if ls[i - 1] != old:
            rec["suite"] = "stale (the tree changed while the run was in progress)"
            return rec
        ls[i - 1] = new
        open(p, "w").write("\n".join(ls))
        imp = run(["/venv/bin/python", "-c", "import pendulum"], env=dict(os.environ, PYTHONPATH=scratch + "/src"))
        if imp.returncode:
            rec["suite"] = "does-not-import"
        else:
            b = run([os.path.join(VERIF, "selftest", "wt-tools", "run_baseline.sh"), scratch])
            rec["suite"] = "survived" if b.returncode == 0 else "killed"
        if rec["suite"] == "survived":
            alarms, infra = [], []
            for prop in MAP[path]:
                q = run([os.path.join(VERIF, "check"), prop, "--tier", "quick"],
                        env=dict(os.environ, PENDMC_REPO=scratch, PENDMC_PROCS=procs))
                if q.returncode == 1:
                    alarms.append(prop)
                    if not every:
                        break
                elif q.returncode != 0:
                    infra.append(prop)
            rec["alarms"], rec["infra"] = alarms, infra
    finally:
        shutil.rmtree(scratch, ignore_errors=True)
    return rec


def main():
    from concurrent.futures import ThreadPoolExecutor
    ap = argparse.ArgumentParser()
    ap.add_argument("files", nargs="+")
    ap.add_argument("--max", type=int, default=10 ** 6)
    ap.add_argument("--procs", default="4", help="worker processes per check run")
    ap.add_argument("--jobs", type=int, default=4, help="mutants examined concurrently")
    ap.add_argument("--every", action="store_true", help="run every mapped check instead of stopping at the first alarm")
    a = ap.parse_args()
    done = set()
    if os.path.exists(OUT):
        for ln in open(OUT):
            d = json.loads(ln)
            done.add((d["file"], d["line"], d["after"]))
    jobs = []
    for spec in a.files:
        path, _, rng = spec.partition(":")
        first, last = (int(x) for x in rng.split("-")) if rng else (0, 0)
        for i, old, new in mutants(path, first, last):
            if (path, i, new.strip()) in done or len(jobs) >= a.max:
                continue
            jobs.append((path, i, old, new, a.procs, a.every))
    print(f"{len(jobs)} mutants", flush=True)
    with ThreadPoolExecutor(a.jobs) as ex:
        for rec in ex.map(one, jobs):
            with open(OUT, "a") as f:
                f.write(json.dumps(rec) + "\n")
            print(f"{rec['file']}:{rec['line']} [{rec['suite']}] {rec.get('alarms', '')} | {rec['before'][:60]}  =>  {rec['after'][:60]}",
                  flush=True)
    return 0


if __name__ == "__main__":
    sys.exit(main())
