#!/venv/bin/python
"""Run every seeded property-breaking change against the checks and record what detects it.

usage: run_seeded.py [--tier quick] [--only NAME ...] [--all-checks]

For each /verif/seeded/<name>/ (patch.diff + meta.json) a scratch copy of /repo is patched (outside /repo and
/verif, removed afterwards), the check of the property it breaks is run with PENDMC_REPO=<scratch> (with
--all-checks: every check), and meta.json gets `detected_by`.  Writes /verif/seeded/RESULTS.md.
"""
from __future__ import annotations

import argparse
import json
import os
import shutil
import subprocess
import sys
import tempfile
from concurrent.futures import ThreadPoolExecutor

VERIF = os.path.dirname(os.path.dirname(os.path.abspath(__file__)))
ALL = [f"C{i:02d}" for i in range(1, 21)]


def run_one(name, tier, all_checks):
    sdir = os.path.join(VERIF, "seeded", name)
    meta = json.load(open(os.path.join(sdir, "meta.json")))
    scratch = tempfile.mkdtemp(prefix="pendmc-seed-", dir="/var/tmp")
    res = {}
    try:
        subprocess.check_call(["rsync", "-a", "--exclude", ".git", "--exclude", "rust/target", "--exclude", "__pycache__",
                               "/repo/", scratch + "/"])
        p = subprocess.run(["patch", "-p1", "-s", "-d", scratch, "-i", os.path.join(sdir, "patch.diff")],
                           stdout=subprocess.PIPE, stderr=subprocess.STDOUT, text=True)
        if p.returncode != 0:
            return name, meta, {"error": "patch does not apply: " + p.stdout[-200:]}
        props = ALL if all_checks else [meta["property"]]
        env = dict(os.environ, PENDMC_REPO=scratch, PENDMC_PROCS=os.environ.get("PENDMC_PROCS", "8"))
        for prop in props:
            q = subprocess.run([os.path.join(VERIF, "check"), prop, "--tier", tier], env=env, stdout=subprocess.PIPE,
                               stderr=subprocess.STDOUT, text=True)
            vio = [ln for ln in q.stdout.splitlines() if ln.startswith("VIOLATION")]
            res[prop] = {"exit": q.returncode, "violations": len(vio),
                         "first": (vio[0].split("#", 1)[1].strip()[:160] if vio else None)}
    finally:
        shutil.rmtree(scratch, ignore_errors=True)
    return name, meta, res


def main():
    ap = argparse.ArgumentParser()
    ap.add_argument("--tier", default="quick")
    ap.add_argument("--only", nargs="*")
    ap.add_argument("--all-checks", action="store_true")
    ap.add_argument("--jobs", type=int, default=2)
    a = ap.parse_args()
    names = sorted(n for n in os.listdir(os.path.join(VERIF, "seeded"))
                   if os.path.isfile(os.path.join(VERIF, "seeded", n, "meta.json")))
    if a.only:
        names = [n for n in names if n in a.only]
    rows = []
    superseded = [n for n in names if "superseded" in json.load(open(os.path.join(VERIF, "seeded", n, "meta.json")))]
    names = [n for n in names if n not in superseded]
    for n in superseded:
        rows.append((n, json.load(open(os.path.join(VERIF, "seeded", n, "meta.json")))["property"],
                     "(superseded by a fix: no longer breaks the property, see meta.json)", ""))
    with ThreadPoolExecutor(a.jobs) as ex:
        for name, meta, res in ex.map(lambda n: run_one(n, a.tier, a.all_checks), names):
            if "error" in res:
                print(f"{name}: {res['error']}")
                rows.append((name, meta["property"], "PATCH DOES NOT APPLY", ""))
                continue
            det = sorted(p for p, r in res.items() if r["exit"] == 1)
            infra = sorted(p for p, r in res.items() if r["exit"] not in (0, 1))
            meta["detected_by"] = {"tier": a.tier, "checks": det, "detail": {p: res[p]["first"] for p in det},
                                   "infrastructure_failures": infra}
            json.dump(meta, open(os.path.join(VERIF, "seeded", name, "meta.json"), "w"), indent=1)
            own = res.get(meta["property"], {})
            print(f"{name}: property {meta['property']} -> detected by {det or 'NOTHING'}"
                  + (f" INFRA {infra}" if infra else ""))
            rows.append((name, meta["property"], ", ".join(det) or "**missed**", (own.get("first") or "")[:110]))
    if not a.only:
        with open(os.path.join(VERIF, "seeded", "RESULTS.md"), "w") as f:
            f.write(f"# Seeded property-breaking changes vs. checks (tier: {a.tier}{', all checks' if a.all_checks else ''})\n\n")
            f.write("Every change keeps the repository's 1606 baseline tests green (see each meta.json).\n\n")
            f.write("| change | breaks | detected by | first violation signature |\n|---|---|---|---|\n")
            for r in rows:
                f.write("| " + " | ".join(str(x).replace("|", "/") for x in r) + " |\n")
    return 0


if __name__ == "__main__":
    sys.exit(main())
